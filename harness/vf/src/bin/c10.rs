//! C10: rounding a datetime yields the correct multiple of the increment for
//! every mode.
//! E1: complete products (type) x (unit) x (every legal increment) x (9 modes)
//! x (values at multiples, ties, +-1 ns around both, type limits), in lockstep
//! with `refmodel::num::round` on exact i128 nanosecond counts.
//!
//! Oracle (DESIGN.md section 3/C10):
//! * Timestamp: counted from the epoch; SignedDuration / Offset: from zero;
//!   Time / DateTime: from midnight, the carry into the date done with R-cal
//!   (Time wraps around, as its documentation says). `Err` iff the result is
//!   outside the type's range.
//! * Zoned, sub-day units: round the civil datetime, then re-resolve in the
//!   zone keeping the original offset iff it is still valid for the rounded
//!   civil time, else "compatible". Unit::Day: start of the civil day or of
//!   the next one, according to the mode applied to elapsed / real day length
//!   (both ends from R-tz).
//! * increments: legal under the property *and* the type's documentation =
//!   proper divisor of the next larger unit (day: only 1); must be rejected:
//!   <= 0 or not dividing the next larger unit (Timestamp: not dividing one
//!   24-hour day); anything in between is not flagged either way, but if jiff
//!   accepts it the rounding must be right. The `increments` and `options`
//!   sections additionally hold every type but Timestamp to its documented
//!   "must also not be equal to the next highest unit" under a signature of
//!   its own (`.../illegal-increment-not-rejected:equal-to-next-unit`).
//!
//! Sections: timestamp, signed_duration, offset, time, datetime (values x all
//! legal increments x modes), illegal + increments (what must be refused; every
//! increment 1..=2*next+2 classified), options (every way of building a *Round
//! value), difference (until/since with rounding options), zoned.

#[path = "c10/common.rs"]
mod common;
#[path = "c10/zoned.rs"]
mod zoned;

use common::*;
use jiff::civil::{Date, DateTime, DateTimeDifference, DateTimeRound, Time, TimeDifference, TimeRound};
use jiff::tz::{Offset, OffsetRound, TimeZone};
use jiff::{RoundMode, SignedDuration, SignedDurationRound, Timestamp, TimestampDifference, TimestampRound, Unit, ZonedDifference, ZonedRound};
use rayon::prelude::*;
use refmodel::cal;
use refmodel::num::{self, Mode};
use serde_json::json;
use std::collections::BTreeSet;
use std::sync::atomic::Ordering::Relaxed;
use vf::conv::{self, DAY_NS, NS};
use vf::{guard, panic_sig, Report};

fn sdur_from_ns(x: i128) -> SignedDuration {
    SignedDuration::new((x / NS) as i64, (x % NS) as i32)
}
fn sdur_ns(d: SignedDuration) -> i128 {
    d.as_secs() as i128 * NS + d.subsec_nanos() as i128
}
const SDUR_MIN: i128 = i64::MIN as i128 * NS - 999_999_999;
const SDUR_MAX: i128 = i64::MAX as i128 * NS + 999_999_999;
const OFF_MAX_S: i128 = 25 * 3600 + 59 * 60 + 59;

const P63: i128 = 1i128 << 63;
const P53: i128 = 1i128 << 53;
/// 2024-03-10T07:00:00.123456789Z and 1900-01-01T00:00:00Z
const MODERN: i128 = 1_710_054_000 * NS + 123_456_789;
const Y1900: i128 = -2_208_988_800 * NS;

/// anchors around which the (multiple, tie, +-1ns) shape is laid: the epoch,
/// the i64-nanosecond boundary, the f64 integer boundary, a modern and a
/// pre-epoch instant, and the multiples 2^31*b and 2^32*b (quotient width)
fn anchored(b: i128, lo: i128, hi: i128, extra: &[i128]) -> BTreeSet<i128> {
    let mut s = offsets(b);
    let mut centers = vec![P63, -P63, P53, -P53, MODERN, Y1900, (1i128 << 31) * b, -(1i128 << 31) * b, (1i128 << 32) * b, -(1i128 << 32) * b];
    centers.extend_from_slice(extra);
    for c in centers {
        if c > lo + 4 * b && c < hi - 4 * b {
            s.extend(offsets_at(b, c, 2));
        }
    }
    s.extend(near_limits(b, lo, hi));
    s.retain(|x| *x >= lo && *x <= hi);
    s
}

/// time-of-day values for step b: the shape around midnight (both ends of the
/// day), around noon and around 09:41:17.123456789
fn tod_vals(b: i128) -> BTreeSet<i128> {
    let mut s: BTreeSet<i128> = offsets(b).into_iter().map(|v| v.rem_euclid(DAY_NS)).collect();
    for c in [DAY_NS / 2, 34_877 * NS + 123_456_789] {
        s.extend(offsets_at(b, c, 2).into_iter().map(|v| v.rem_euclid(DAY_NS)));
    }
    for x in [0, 1, DAY_NS - 1, DAY_NS - 2, DAY_NS / 2 - 1, DAY_NS / 2, DAY_NS / 2 + 1] {
        s.insert(x);
    }
    s
}

/// the date pool plus every month end (and the 1st) of a leap year, a common
/// year, a non-leap century year, year 0 and year -1; thorough: every day of
/// ten years including -9999, -1, 0, 1 and 9999
fn date_pool(thorough: bool) -> Vec<Date> {
    let mut days: BTreeSet<i64> = vf::pools::dates().into_iter().map(conv::date_epoch_day).collect();
    for y in [2024i64, 2023, 1900, 0, -1] {
        for m in 1..=12 {
            days.insert(cal::days_from_civil(y, m, 1));
            days.insert(cal::days_from_civil(if m == 12 { y + 1 } else { y }, if m == 12 { 1 } else { m + 1 }, 1) - 1);
        }
    }
    days.insert(cal::days_from_civil(-9999, 12, 30));
    days.insert(cal::days_from_civil(9999, 2, 28));
    if thorough {
        for y in [-9999i64, -4, -1, 0, 1, 1900, 2000, 2023, 2024, 9999] {
            let a = cal::days_from_civil(y, 1, 1);
            let b = cal::days_from_civil(y, 12, 31);
            for d in a..=b {
                days.insert(d);
            }
        }
    }
    days.into_iter().filter_map(conv::date_from_epoch_day).collect()
}

fn main() {
    let r = Report::from_args("C10");
    let thorough = r.thorough();
    r.note("alphabets: per (unit, increment): values k*inc, k*inc+-1ns, (k+1/2)*inc, (k+1/2)*inc+-1ns for k in -3..=2 around the epoch/midnight and for k in -2..=1 around +-2^63 ns, +-2^53 ns, 2024-03-10T07:00:00.123456789Z, 1900-01-01, +-2^31*inc, +-2^32*inc (time of day: noon, 09:41:17.123456789) plus the type's limits; all 9 modes; increments: every proper divisor of the next larger unit (and that unit's size, unflagged), for Timestamp every divisor of a 24-hour day in each unit; Offset: every whole second of its range; Time (thorough): every second of the day x 6 sub-second values; DateTime on the date pool + all month ends of 5 years (thorough: every day of 10 years); every increment 1..=2*next+2 classified per type and unit; every construction of the option value");
    let t = Tally::new();
    let ts_min = conv::ts_min_ns();
    let ts_max = conv::ts_max_ns();

    // ---------------- Timestamp ----------------
    r.section("timestamp", || {
        let cfgs: Vec<(usize, i64, Leg)> = (0..6).flat_map(|u| increments(Ty::Timestamp, u).into_iter().map(move |(i, l)| (u, i, l))).collect();
        r.count("timestamp_unit_increment_pairs", cfgs.len() as u64);
        cfgs.par_iter().for_each(|&(u, inc, leg)| {
            let mut l = Loc::new();
            let b = inc as i128 * UNITS[u].2;
            let vals = anchored(b, ts_min, ts_max, &[]);
            let mut n = 0u64;
            for &x in &vals {
                let ts = Timestamp::from_nanosecond(x).expect("in range");
                for (jm, mm, mname) in MODES {
                    let res = num::round(x, b, mm);
                    let want = if res >= ts_min && res <= ts_max { Want::Ok(res) } else { Want::Err };
                    l.shape(Ty::Timestamp, x, b, inc, res);
                    // F4: the rounded instant leaves the Timestamp range
                    let class = if want == Want::Err { Some("Timestamp::round/result-out-of-range-not-Err") } else { None };
                    let case = || format!("Timestamp {} round {}x{} {}", conv::fmt_ns(x), inc, UNITS[u].1, mname);
                    let got = guard(|| ts.round(TimestampRound::new().smallest(UNITS[u].0).increment(inc).mode(jm)).ok().map(|v| (v.as_nanosecond(), v.as_second(), v.subsec_nanosecond())));
                    let parts = match &got {
                        Ok(Some(p)) => Some(*p),
                        _ => None,
                    };
                    judge(&r, &mut l, "timestamp", "Timestamp::round", leg, class, &case, got.map(|o| o.map(|p| p.0)), want);
                    // the value must be the normalised representation of that instant
                    if let (Some((g, s, ns)), Want::Ok(w)) = (parts, want) {
                        if g == w {
                            l.inc(C::TsNormChecked);
                            if s as i128 != w / NS || ns as i128 != w % NS {
                                r.viol("timestamp", "Timestamp::round/denormalised-result", case(), format!("jiff second {} subsec {} for instant {}", s, ns, conv::fmt_ns(w)));
                            }
                        }
                    }
                    n += 1;
                }
            }
            l.flush(&t);
            r.add_states(vals.len() as u64);
            r.add_transitions(n);
            r.add_validated(n);
        });
        r.sample(json!({"case": "Timestamp -1.500000000 round 1xs HalfEven", "model_ns": num::round(-1_500_000_000, NS, Mode::HalfEven)}));
    });

    // ---------------- SignedDuration ----------------
    r.section("signed_duration", || {
        let cfgs: Vec<(usize, i64, Leg)> = (0..6).flat_map(|u| increments(Ty::SignedDuration, u).into_iter().map(move |(i, l)| (u, i, l))).collect();
        r.count("unit_increment_pairs", cfgs.len() as u64);
        cfgs.par_iter().for_each(|&(u, inc, leg)| {
            let mut l = Loc::new();
            let b = inc as i128 * UNITS[u].2;
            // also the 2^64 ns boundary and i64::MIN/MAX whole seconds
            let vals = anchored(b, SDUR_MIN, SDUR_MAX, &[1i128 << 64, -(1i128 << 64), i64::MAX as i128 * NS, i64::MIN as i128 * NS, (i64::MAX as i128 - 3_600) * NS, (i64::MIN as i128 + 3_600) * NS]);
            let mut n = 0u64;
            for &x in &vals {
                let d = sdur_from_ns(x);
                assert_eq!(sdur_ns(d), x);
                for (jm, mm, mname) in MODES {
                    let res = num::round(x, b, mm);
                    let want = if res >= SDUR_MIN && res <= SDUR_MAX { Want::Ok(res) } else { Want::Err };
                    l.shape(Ty::SignedDuration, x, b, inc, res);
                    // input class N2: the in-range result has i64::MIN whole seconds and a
                    // non-zero fraction (jiff floors the seconds of the rounded total)
                    let class = if want != Want::Err && res < i64::MIN as i128 * NS { Some("SignedDuration::round/err-but-result-in-range:secs=i64::MIN-with-fraction") } else { None };
                    let case = || format!("SignedDuration {}ns round {}x{} {}", x, inc, UNITS[u].1, mname);
                    let got = guard(|| d.round(SignedDurationRound::new().smallest(UNITS[u].0).increment(inc).mode(jm)).ok().map(sdur_ns));
                    judge(&r, &mut l, "signed_duration", "SignedDuration::round", leg, class, &case, got, want);
                    n += 1;
                }
            }
            l.flush(&t);
            r.add_states(vals.len() as u64);
            r.add_transitions(n);
            r.add_validated(n);
        });
    });

    // ---------------- Offset (whole seconds): every value of the type ----------------
    r.section("offset", || {
        let cfgs: Vec<(usize, i64, Leg)> = (3..6).flat_map(|u| increments(Ty::Offset, u).into_iter().map(move |(i, l)| (u, i, l))).collect();
        // quick: every second within +-02:00:00 and within 00:02:00 of the limits;
        // thorough: every second of the range
        let chunks: Vec<(i128, i128)> = if thorough {
            (-OFF_MAX_S..=OFF_MAX_S).step_by(8_192).map(|a| (a, (a + 8_191).min(OFF_MAX_S))).collect()
        } else {
            vec![(-OFF_MAX_S, -OFF_MAX_S + 120), (-7_200, -3_601), (-3_600, -1), (0, 3_600), (3_601, 7_200), (OFF_MAX_S - 120, OFF_MAX_S)]
        };
        let work: Vec<((usize, i64, Leg), (i128, i128))> = cfgs.iter().flat_map(|c| chunks.iter().map(move |ch| (*c, *ch))).collect();
        work.par_iter().for_each(|&((u, inc, leg), (lo, hi))| {
            let mut l = Loc::new();
            let b = inc as i128 * (UNITS[u].2 / NS); // seconds
            let mut n = 0u64;
            for x in lo..=hi {
                let off = Offset::from_seconds(x as i32).expect("offset in range");
                for (jm, mm, mname) in MODES {
                    let res = num::round(x, b, mm);
                    let want = if res.abs() <= OFF_MAX_S { Want::Ok(res) } else { Want::Err };
                    l.shape(Ty::Offset, x, b, inc, res);
                    let case = || format!("Offset {}s round {}x{} {}", x, inc, UNITS[u].1, mname);
                    let got = guard(|| off.round(OffsetRound::new().smallest(UNITS[u].0).increment(inc).mode(jm)).ok().map(|o| o.seconds() as i128));
                    judge(&r, &mut l, "offset", "Offset::round", leg, None, &case, got, want);
                    n += 1;
                }
            }
            l.flush(&t);
            r.add_states((hi - lo + 1) as u64);
            r.add_transitions(n);
            r.add_validated(n);
        });
    });

    // ---------------- Time ----------------
    r.section("time", || {
        let cfgs: Vec<(usize, i64, Leg)> = (0..6).flat_map(|u| increments(Ty::Time, u).into_iter().map(move |(i, l)| (u, i, l))).collect();
        // thorough: every second of the day x 6 sub-second values, in chunks of an hour
        let hours: Vec<Option<i128>> = if thorough { std::iter::once(None).chain((0..24).map(Some)).collect() } else { vec![None] };
        let work: Vec<((usize, i64, Leg), Option<i128>)> = cfgs.iter().flat_map(|c| hours.iter().map(move |h| (*c, *h))).collect();
        work.par_iter().for_each(|&((u, inc, leg), hour)| {
            let mut l = Loc::new();
            let b = inc as i128 * UNITS[u].2;
            let vals: Vec<i128> = match hour {
                None => tod_vals(b).into_iter().collect(),
                Some(h) => (h * 3_600..(h + 1) * 3_600).flat_map(|s| [0, 1, 499_999_999, 500_000_000, 500_000_001, 999_999_999].into_iter().map(move |f| s * NS + f)).collect(),
            };
            let mut n = 0u64;
            for &x in &vals {
                let tm = conv::time_from_ns(x);
                for (jm, mm, mname) in MODES {
                    let res = num::round(x, b, mm);
                    l.shape(Ty::Time, x, b, inc, res);
                    if res == DAY_NS {
                        l.inc(C::Wrapped);
                    }
                    // documented: "rounding wraps around on overflow", never an error
                    let want = Want::Ok(res % DAY_NS);
                    let case = || format!("Time {} round {}x{} {}", conv::fmt_ns(x), inc, UNITS[u].1, mname);
                    let got = guard(|| tm.round(TimeRound::new().smallest(UNITS[u].0).increment(inc).mode(jm)).ok().map(conv::time_ns));
                    judge(&r, &mut l, "time", "Time::round", leg, None, &case, got, want);
                    n += 1;
                }
            }
            l.flush(&t);
            r.add_states(vals.len() as u64);
            r.add_transitions(n);
            r.add_validated(n);
        });
    });

    // ---------------- DateTime ----------------
    r.section("datetime", || {
        let dates = date_pool(thorough);
        r.count("datetime_dates", dates.len() as u64);
        let cfgs: Vec<(usize, i64, Leg)> = (0..7).flat_map(|u| increments(Ty::DateTime, u).into_iter().map(move |(i, l)| (u, i, l))).collect();
        let dtmax = conv::dt_max_ns();
        let work: Vec<((usize, i64, Leg), &[Date])> = cfgs.iter().flat_map(|c| dates.chunks(64).map(move |ch| (*c, ch))).collect();
        work.par_iter().for_each(|&((u, inc, leg), dates)| {
            let mut l = Loc::new();
            let b = inc as i128 * UNITS[u].2;
            let vals = tod_vals(b);
            let mut n = 0u64;
            for &d in dates {
                let day = conv::date_epoch_day(d) as i128;
                let year = d.year();
                for &x in &vals {
                    let dt = DateTime::from_parts(d, conv::time_from_ns(x));
                    for (jm, mm, mname) in MODES {
                        let rt = num::round(x, b, mm);
                        l.shape(Ty::DateTime, x, b, inc, rt);
                        let carry = rt == DAY_NS;
                        let res = day * DAY_NS + rt;
                        let want = if res <= dtmax { Want::Ok(res) } else { Want::Err };
                        let mut class = None;
                        if carry {
                            l.inc(C::Carried);
                            if year <= 0 {
                                // F5: the day carry is multiplied by signum(year)
                                l.inc(C::F5);
                                class = Some("DateTime::round/day-carry:year<=0");
                            }
                        }
                        let case = || format!("DateTime {} round {}x{} {}", fmt_civil(day * DAY_NS + x), inc, UNITS[u].1, mname);
                        let got = guard(|| dt.round(DateTimeRound::new().smallest(UNITS[u].0).increment(inc).mode(jm)).ok().map(conv::dt_civil_ns));
                        judge(&r, &mut l, "datetime", "DateTime::round", leg, class, &case, got, want);
                        n += 1;
                    }
                }
            }
            l.flush(&t);
            r.add_states((vals.len() * dates.len()) as u64);
            r.add_transitions(n);
            r.add_validated(n);
        });
        r.sample(json!({"case": "DateTime 0-06-15T23:59:59.900000000 round 1xs HalfExpand", "model": fmt_civil(cal::days_from_civil(0, 6, 16) as i128 * DAY_NS)}));
    });

    illegal(&r, &t);
    r.section("increments", || increments_section(&r, &t));
    r.section("options", || {
        options_section(&r, &t);
        zoned::zoned_options(&r, &t);
    });
    r.section("difference", || difference(&r, &t, thorough));

    // ---------------- Zoned ----------------
    r.section("zoned", || zoned::zoned(&r, &t, thorough));

    for i in 0..NC {
        r.outcome(C_NAMES[i], t.c[i].load(Relaxed));
    }
    for i in 0..6 {
        r.outcome(&format!("exact_ties_with_odd_increment>1:{}", TY_NAMES[i]), t.odd_ties[i].load(Relaxed));
        r.outcome(&format!("exact_ties_above_odd_multiple:{}", TY_NAMES[i]), t.odd_quot_ties[i].load(Relaxed));
    }
    if r.only_section.is_none() {
        r.require(t.get(C::Ties) > 0 && t.get(C::Up) > 0 && t.get(C::Down) > 0, "ties, upward and downward roundings all occur");
        r.require(t.get(C::Err) > 0, "some roundings leave the type's range");
        r.require(t.get(C::Carried) > 0 && t.get(C::F5) > 0, "datetime roundings carry into the next day, also for years <= 0");
        r.require(t.get(C::Wrapped) > 0, "time roundings wrap");
        r.require(t.get(C::RejectedOk) > 0, "illegal increments rejected somewhere");
        r.require(t.get(C::ZKept) > 0 && t.get(C::ZGap) > 0 && t.get(C::ZFold) > 0, "zoned: offset kept, gap and fold/unique resolution all occur");
        r.require(t.get(C::ZDayUp) > 0 && t.get(C::ZDayDown) > 0 && t.get(C::ZDayNot24) > 0, "zoned day rounding goes both ways, on days that are not 24h long");
        // ---- added by the coverage extension ----
        for i in 0..6 {
            r.require(t.odd_ties[i].load(Relaxed) > 0, &format!("{}: exact ties with an odd increment > 1 occur", TY_NAMES[i]));
            r.require(t.odd_quot_ties[i].load(Relaxed) > 0 || i == Ty::Zoned as usize, &format!("{}: exact ties above an odd multiple occur", TY_NAMES[i]));
        }
        r.require(t.get(C::TsNormChecked) > 0, "timestamp results checked for normalisation");
        r.require(t.get(C::IncLegalAccepted) > 0 && t.get(C::IncNonDivisorRejected) > 0 && t.get(C::IncEqualNextRejected) > 0, "increments: legal accepted, non-divisors and the next unit's size rejected");
        r.require(t.get(C::OptFromUnit) > 0 && t.get(C::OptFromTuple) > 0 && t.get(C::OptPerm) > 0 && t.get(C::OptDefaults) > 0 && t.get(C::OptOverwrite) > 0 && t.get(C::OptRejected) > 0, "options: every construction compared, illegal ones rejected");
        r.require(t.get(C::DiffIllegalRejected) > 0, "until/since reject illegal increments");
        r.require(t.get(C::ZF26Class) > 0, "zoned: days after a gap straddling midnight are met (F26 class)");
        r.require(t.get(C::ZCarryOldYear) > 0, "zoned: carries into the next day in years <= 0");
        r.require(t.get(C::ZResultChecked) > 0, "zoned: result zone/offset/civil checked");
        r.require(t.get(C::ZLandedInGapFromAfter) > 0, "zoned: rounding down into a gap from after it");
        r.require(t.get(C::ZFoldLaterSideKept) > 0 && t.get(C::ZFoldEarlierSideKept) > 0, "zoned: original offset kept on both sides of folds");
        r.require(t.get(C::ZDayStartNotMidnight) > 0 && t.get(C::ZDayLong) > 0 && t.get(C::ZDayShort) > 0, "zoned day rounding: long, short days and days not starting at midnight");
        r.require(r.get_count("zoned_synthetic_zones") > 0, "synthetic zones compiled and loaded");
    }
    r.finish();
}

// ---------------------------------------------------------------------------
// increments / units that must be rejected (probe list)
// ---------------------------------------------------------------------------

/// one rounding of `x` (ns; Offset: ns of whole seconds) by type, through the builder
fn round_any(ty: Ty, x: i128, unit: Unit, inc: Option<i64>, jm: RoundMode) -> Result<Option<String>, String> {
    let tz = TimeZone::UTC;
    macro_rules! opt {
        ($R:ident) => {{
            let o = $R::new().smallest(unit).mode(jm);
            match inc {
                Some(i) => o.increment(i),
                None => o,
            }
        }};
    }
    match ty {
        Ty::Timestamp => guard(|| Timestamp::from_nanosecond(x).unwrap().round(opt!(TimestampRound)).ok().map(|v| v.to_string())),
        Ty::SignedDuration => guard(|| sdur_from_ns(x).round(opt!(SignedDurationRound)).ok().map(|v| format!("{:?}", v))),
        Ty::Offset => guard(|| Offset::from_seconds((x / NS) as i32).unwrap().round(opt!(OffsetRound)).ok().map(|v| v.to_string())),
        Ty::Time => guard(|| conv::time_from_ns(x.rem_euclid(DAY_NS)).round(opt!(TimeRound)).ok().map(|v| v.to_string())),
        Ty::DateTime => guard(|| conv::dt_from_civil_ns(x).unwrap().round(opt!(DateTimeRound)).ok().map(|v| v.to_string())),
        Ty::Zoned => guard(|| Timestamp::from_nanosecond(x).unwrap().to_zoned(tz.clone()).round(opt!(ZonedRound)).ok().map(|v| v.to_string())),
    }
}

const ALL_TYS: [Ty; 6] = [Ty::Timestamp, Ty::SignedDuration, Ty::Offset, Ty::Time, Ty::DateTime, Ty::Zoned];

fn units_of(ty: Ty) -> Vec<usize> {
    (0..7).filter(|&u| unit_ok(ty, u)).collect()
}

fn illegal(r: &Report, t: &Tally) {
    r.section("illegal", || {
        let probe_incs = |u: usize| -> Vec<i64> {
            let next = if u < 6 { NEXT[u] } else { 1 };
            let mut v = vec![0, -1, -3, i64::MIN, i64::MIN + 1, -next, 7, 13, 2 * next, next + 1, 7 * next, 1_001, 86_401, 86_400_000_000_001, i64::MAX, i64::MAX - 1, 1 << 32, (1 << 32) + 1, 1 << 62];
            if u == 6 {
                v.extend([2, 3, 24]);
            }
            v.sort();
            v.dedup();
            v
        };
        let mut l = Loc::new();
        let mut n = 0u64;
        for ty in ALL_TYS {
            let tyname = format!("{:?}", ty);
            for u in units_of(ty) {
                for inc in probe_incs(u) {
                    if !must_reject(ty, u, inc) {
                        continue;
                    }
                    // F11: SignedDuration / Offset never validate the increment
                    let sig = format!("{}::round/illegal-increment-not-rejected:{}", tyname, inc_class(inc));
                    let ub = UNITS[u].2;
                    let vals: Vec<i128> = match ty {
                        Ty::Offset => vec![0, 10 * NS, -10 * NS, 5_400 * NS, -5_400 * NS],
                        _ => vec![0, 10 * NS, -10 * NS, ub * 3 / 2, -(ub * 3 / 2), 12_345_678_912_345],
                    };
                    for &x in &vals {
                        for (jm, _mm, mname) in MODES {
                            let xs = if ty == Ty::Offset { x / NS } else { x };
                            let case = format!("{} {} round {}x{} {}", tyname, xs, inc, UNITS[u].1, mname);
                            let got = round_any(ty, x, UNITS[u].0, Some(inc), jm);
                            n += 1;
                            match got {
                                Ok(None) => l.inc(C::RejectedOk),
                                Ok(Some(v)) => r.viol("illegal", &sig, case, format!("jiff Ok({}) but the increment does not evenly divide the next larger unit", v)),
                                Err(p) => r.viol("illegal", &sig, case, format!("jiff panic {}", p)),
                            }
                        }
                    }
                }
            }
            // units the type's documentation excludes
            let bad_units: Vec<(Unit, &str)> = match ty {
                Ty::DateTime | Ty::Zoned => BIG_UNITS[1..].to_vec(),
                Ty::Offset => {
                    let mut v = BIG_UNITS.to_vec();
                    v.extend([(Unit::Nanosecond, "ns"), (Unit::Microsecond, "us"), (Unit::Millisecond, "ms")]);
                    v
                }
                _ => BIG_UNITS.to_vec(),
            };
            for (unit, uname) in bad_units {
                for x in [0i128, 10 * NS, -10 * NS] {
                    for (jm, _mm, mname) in MODES {
                        let case = format!("{} {} round 1x{} {}", tyname, x, uname, mname);
                        // without an increment, and with the ones a mistaken table might accept
                        for inc in [None, Some(1i64), Some(2), Some(7)] {
                            let got = round_any(ty, x, unit, inc, jm);
                            n += 1;
                            match got {
                                Ok(None) => l.inc(C::RejectedOk),
                                Ok(Some(_)) => r.viol("illegal", &format!("{}::round/unsupported-unit-not-rejected", tyname), case.clone(), "jiff Ok for a unit the type's documentation excludes"),
                                Err(p) => r.viol("illegal", &format!("{}::round/unsupported-unit:{}", tyname, panic_sig(&p)), case.clone(), p),
                            }
                        }
                    }
                }
            }
        }
        l.flush(t);
        r.add_states(n);
        r.add_transitions(n);
        r.add_validated(n);
    });
}

// ---------------------------------------------------------------------------
// every increment 1..=2*next+2 (Timestamp: also every divisor of the day, +-1)
// classified per type and unit
// ---------------------------------------------------------------------------

fn increments_section(r: &Report, t: &Tally) {
    let work: Vec<(Ty, usize)> = ALL_TYS.iter().flat_map(|&ty| units_of(ty).into_iter().map(move |u| (ty, u))).collect();
    work.par_iter().for_each(|&(ty, u)| {
        let mut l = Loc::new();
        let tyname = TY_NAMES[ty as usize];
        let mut incs: BTreeSet<i64> = BTreeSet::new();
        if u == 6 {
            incs.extend(1..=50);
        } else {
            incs.extend(1..=2 * NEXT[u] + 2);
            if ty == Ty::Timestamp {
                let day = (DAY_NS / UNITS[u].2) as i64;
                for d in divisors(day) {
                    incs.extend([d - 1, d, d + 1]);
                }
                incs.extend([2 * day, 2 * day + 1]);
            }
        }
        incs.retain(|&i| i >= 1);
        let ub = UNITS[u].2;
        let mut n = 0u64;
        for &inc in &incs {
            let exp = expect(ty, u, inc);
            // a value that is an odd multiple and a half of the unit away from zero / midnight
            let b = inc as i128 * ub;
            let xs: Vec<i128> = match ty {
                Ty::Offset => vec![5_430 * NS, -5_430 * NS],
                _ => vec![ub * 3 / 2 + b, -(ub * 3 / 2) - b],
            };
            for &x0 in &xs {
                // keep the operand inside every type's domain
                let x = match ty {
                    Ty::Time => x0.rem_euclid(DAY_NS),
                    Ty::Timestamp | Ty::DateTime | Ty::Zoned => x0.clamp(-(1i128 << 66), 1i128 << 66),
                    _ => x0,
                };
                for mi in [HALF_EXPAND, 1usize] {
                    let (jm, mm, mname) = MODES[mi];
                    let xs_ = if ty == Ty::Offset { x / NS } else { x };
                    let case = || format!("{} {} round {}x{} {}", tyname, xs_, inc, UNITS[u].1, mname);
                    let got: Result<Option<i128>, String> = match ty {
                        Ty::Timestamp => guard(|| Timestamp::from_nanosecond(x).unwrap().round(TimestampRound::new().smallest(UNITS[u].0).increment(inc).mode(jm)).ok().map(|v| v.as_nanosecond())),
                        Ty::SignedDuration => guard(|| sdur_from_ns(x).round(SignedDurationRound::new().smallest(UNITS[u].0).increment(inc).mode(jm)).ok().map(sdur_ns)),
                        Ty::Offset => guard(|| Offset::from_seconds((x / NS) as i32).unwrap().round(OffsetRound::new().smallest(UNITS[u].0).increment(inc).mode(jm)).ok().map(|v| v.seconds() as i128 * NS)),
                        Ty::Time => guard(|| conv::time_from_ns(x).round(TimeRound::new().smallest(UNITS[u].0).increment(inc).mode(jm)).ok().map(conv::time_ns)),
                        Ty::DateTime => guard(|| conv::dt_from_civil_ns(x).unwrap().round(DateTimeRound::new().smallest(UNITS[u].0).increment(inc).mode(jm)).ok().map(conv::dt_civil_ns)),
                        Ty::Zoned => guard(|| Timestamp::from_nanosecond(x).unwrap().to_zoned(TimeZone::UTC).round(ZonedRound::new().smallest(UNITS[u].0).increment(inc).mode(jm)).ok().map(|v| v.timestamp().as_nanosecond())),
                    };
                    n += 1;
                    // model value (UTC zone: Zoned = Timestamp = civil)
                    let model = match ty {
                        Ty::Time => num::round(x, b, mm) % DAY_NS,
                        Ty::DateTime | Ty::Zoned => {
                            let day = x.div_euclid(DAY_NS);
                            day * DAY_NS + num::round(x.rem_euclid(DAY_NS), b, mm)
                        }
                        _ => num::round(x, b, mm),
                    };
                    let in_range = match ty {
                        Ty::Offset => model.abs() <= OFF_MAX_S * NS,
                        _ => true,
                    };
                    match exp {
                        Exp::Legal => {
                            l.inc(C::IncLegalAccepted);
                            let want = if in_range { Want::Ok(model) } else { Want::Err };
                            judge(r, &mut l, "increments", &format!("{}::round", tyname), Leg::Legal, None, &case, got, want);
                        }
                        Exp::Between => match got {
                            Ok(None) => l.inc(C::IncBetweenRejected),
                            Ok(Some(g)) => {
                                l.inc(C::IncBetweenAccepted);
                                if g != model {
                                    r.viol("increments", &format!("{}::round/value", tyname), case(), format!("jiff {} model {}", g, model));
                                }
                            }
                            Err(p) => r.viol("increments", &format!("{}::round/{}", tyname, panic_sig(&p)), case(), p),
                        },
                        Exp::Reject | Exp::RejectEqualNext => {
                            let class = if exp == Exp::RejectEqualNext { "equal-to-next-unit" } else { inc_class(inc) };
                            let sig = format!("{}::round/illegal-increment-not-rejected:{}", tyname, class);
                            match got {
                                Ok(None) => l.inc(if exp == Exp::RejectEqualNext { C::IncEqualNextRejected } else { C::IncNonDivisorRejected }),
                                Ok(Some(v)) => r.viol("increments", &sig, case(), format!("jiff Ok({}) but the increment {}", v, if exp == Exp::RejectEqualNext { "equals the next larger unit (documented: must not)" } else { "does not evenly divide the next larger unit" })),
                                Err(p) => r.viol("increments", &sig, case(), format!("jiff panic {}", p)),
                            }
                        }
                    }
                }
            }
        }
        l.flush(t);
        r.add_states(incs.len() as u64);
        r.add_transitions(n);
        r.add_validated(n);
    });
}

// ---------------------------------------------------------------------------
// every way of building the option value
// ---------------------------------------------------------------------------

/// One type's run of the options product. `call(x, how, unit, inc, mode, other
/// unit, other inc, other mode)`; `model(x, b, mode)` with x and b in the
/// type's own scale (`scale` ns per count).
fn options_for(
    r: &Report,
    t: &Tally,
    ty: Ty,
    def_u: usize,
    scale: i128,
    vals: &(dyn Fn(i128) -> Vec<i128> + Sync),
    call: &(dyn Fn(i128, How, Unit, i64, RoundMode, Unit, i64, RoundMode) -> Result<Option<i128>, String> + Sync),
    model: &(dyn Fn(i128, i128, Mode) -> Want + Sync),
) {
    let tyname = TY_NAMES[ty as usize];
    // per unit: 1, an even and odd increments > 1; plus illegal ones
    let incs_of = |u: usize| -> Vec<i64> {
        match u {
            0..=2 => vec![1, 2, 5, 125, 7, 1_000, 0],
            3 | 4 => vec![1, 2, 3, 15, 7, 60, -1],
            5 => vec![1, 2, 3, 5, 24, 0],
            _ => vec![1, 2],
        }
    };
    let cfgs: Vec<(usize, i64)> = (0..7).flat_map(|u| incs_of(u).into_iter().map(move |i| (u, i))).collect();
    cfgs.par_iter().for_each(|&(u, inc)| {
        let mut l = Loc::new();
        let mut n = 0u64;
        let unit = UNITS[u].0;
        let b_for_vals = (if inc > 0 && unit_ok(ty, u) { inc as i128 * UNITS[u].2 / scale } else { UNITS[u.clamp(3, 5)].2 / scale }).max(1);
        let xs = vals(b_for_vals);
        for &x in &xs {
            for (mi, (jm, _mm, mname)) in MODES.iter().enumerate() {
                for how in HOWS {
                    if !how.uses_mode() && mi != 0 {
                        continue;
                    }
                    let (eu, einc, em) = how.effective(u, inc, mi, def_u);
                    let exp = expect(ty, eu, einc);
                    let (ou, oi, om) = (if u == 5 { Unit::Second } else { Unit::Hour }, 7i64, MODES[(mi + 4) % 9].0);
                    let got = call(x, how, unit, inc, *jm, ou, oi, om);
                    let case = || format!("{} {} round via {} unit={} inc={} mode={}", tyname, x, how.name(), UNITS[u].1, inc, mname);
                    let op = format!("{}::round({})", tyname, how.class());
                    n += 1;
                    match exp {
                        Exp::Reject | Exp::RejectEqualNext => match got {
                            Ok(None) => l.inc(C::OptRejected),
                            Ok(Some(v)) => r.viol("options", &format!("{}/illegal-increment-or-unit-not-rejected", op), case(), format!("jiff Ok({}); the construction means unit={} inc={}", v, UNITS[eu].1, einc)),
                            Err(p) => r.viol("options", &format!("{}/{}", op, panic_sig(&p)), case(), p),
                        },
                        Exp::Between => {}
                        Exp::Legal => {
                            let b = einc as i128 * UNITS[eu].2 / scale;
                            let want = if b == 0 { Want::Ok(x) } else { model(x, b, MODES[em].1) };
                            l.inc(how.counter());
                            judge(r, &mut l, "options", &op, Leg::Legal, None, &case, got, want);
                        }
                    }
                }
            }
        }
        l.flush(t);
        r.add_states(xs.len() as u64);
        r.add_transitions(n);
        r.add_validated(n);
    });
}

fn options_section(r: &Report, t: &Tally) {
    let ts_min = conv::ts_min_ns();
    let ts_max = conv::ts_max_ns();
    let dtmax = conv::dt_max_ns();
    let shape = |b: i128| -> Vec<i128> { offsets(b).into_iter().collect() };

    options_for(
        r,
        t,
        Ty::Timestamp,
        0,
        1,
        &|b| {
            let mut v = shape(b);
            v.extend([ts_max, ts_min, MODERN]);
            v
        },
        &|x, how, u, i, m, ou, oi, om| guard(|| c10_round!(Timestamp::from_nanosecond(x).unwrap(), TimestampRound, how, u, i, m, ou, oi, om).ok().map(|v| v.as_nanosecond())),
        &|x, b, mm| {
            let res = num::round(x, b, mm);
            if res >= ts_min && res <= ts_max {
                Want::Ok(res)
            } else {
                Want::Err
            }
        },
    );
    options_for(
        r,
        t,
        Ty::SignedDuration,
        0,
        1,
        &|b| {
            let mut v = shape(b);
            v.extend([SDUR_MAX, SDUR_MIN, MODERN]);
            v
        },
        &|x, how, u, i, m, ou, oi, om| guard(|| c10_round!(sdur_from_ns(x), SignedDurationRound, how, u, i, m, ou, oi, om).ok().map(sdur_ns)),
        &|x, b, mm| {
            let res = num::round(x, b, mm);
            if res >= SDUR_MIN && res <= SDUR_MAX {
                Want::Ok(res)
            } else {
                Want::Err
            }
        },
    );
    // Offset: values in seconds; the default unit of OffsetRound::new() is the second
    options_for(
        r,
        t,
        Ty::Offset,
        3,
        NS,
        &|b| {
            let mut v: Vec<i128> = shape(b).into_iter().filter(|x| x.abs() <= OFF_MAX_S).collect();
            v.extend([OFF_MAX_S, -OFF_MAX_S, 5_430, -5_430, 45]);
            v
        },
        &|x, how, u, i, m, ou, oi, om| guard(|| c10_round!(Offset::from_seconds(x as i32).unwrap(), OffsetRound, how, u, i, m, ou, oi, om).ok().map(|v| v.seconds() as i128)),
        &|x, b, mm| {
            let res = num::round(x, b, mm);
            if res.abs() <= OFF_MAX_S {
                Want::Ok(res)
            } else {
                Want::Err
            }
        },
    );
    options_for(
        r,
        t,
        Ty::Time,
        0,
        1,
        &|b| {
            let mut v: BTreeSet<i128> = shape(b).into_iter().map(|x| x.rem_euclid(DAY_NS)).collect();
            v.extend([DAY_NS - 1, DAY_NS / 2, 34_877 * NS + 500_000_000]);
            v.into_iter().collect()
        },
        &|x, how, u, i, m, ou, oi, om| guard(|| c10_round!(conv::time_from_ns(x), TimeRound, how, u, i, m, ou, oi, om).ok().map(conv::time_ns)),
        &|x, b, mm| Want::Ok(num::round(x, b, mm) % DAY_NS),
    );
    // DateTime: civil ns; three dates (1970-01-01 / 1969-12-31 from the shape, year 0, the maximum)
    let y0 = cal::days_from_civil(0, 12, 31) as i128 * DAY_NS;
    let ymax = cal::days_from_civil(9999, 12, 31) as i128 * DAY_NS;
    options_for(
        r,
        t,
        Ty::DateTime,
        0,
        1,
        &|b| {
            let base = shape(b);
            let mut v = base.clone();
            for d in [y0, ymax] {
                v.extend(base.iter().map(|x| d + x.rem_euclid(DAY_NS)));
            }
            v.extend([y0 + DAY_NS - 1, ymax + DAY_NS - 1, y0 + DAY_NS / 2]);
            v
        },
        &|x, how, u, i, m, ou, oi, om| guard(|| c10_round!(conv::dt_from_civil_ns(x).unwrap(), DateTimeRound, how, u, i, m, ou, oi, om).ok().map(conv::dt_civil_ns)),
        &|x, b, mm| {
            let res = x.div_euclid(DAY_NS) * DAY_NS + num::round(x.rem_euclid(DAY_NS), b, mm);
            if res <= dtmax {
                Want::Ok(res)
            } else {
                Want::Err
            }
        },
    );
}

// ---------------------------------------------------------------------------
// until / since with rounding options
// ---------------------------------------------------------------------------

fn difference(r: &Report, t: &Tally, thorough: bool) {
    // total of the returned span must be round(b - a) resp. round(a - b)
    let span_ns = |s: jiff::Span| -> i128 {
        assert!(s.get_years() == 0 && s.get_months() == 0 && s.get_weeks() == 0 && s.get_days() == 0);
        s.get_hours() as i128 * 3_600 * NS + s.get_minutes() as i128 * 60 * NS + s.get_seconds() as i128 * NS + s.get_milliseconds() as i128 * 1_000_000 + s.get_microseconds() as i128 * 1_000 + s.get_nanoseconds() as i128
    };
    let cfgs: Vec<(usize, i64)> = (0..6)
        .flat_map(|u| {
            let all: Vec<i64> = divisors(NEXT[u]).into_iter().filter(|&d| d < NEXT[u]).collect();
            let pick: Vec<i64> = if thorough { all } else { all.into_iter().filter(|d| [1, 2, 5, 15, 30, 500, 3, 12, 25, 125].contains(d)).collect() };
            pick.into_iter().map(move |i| (u, i))
        })
        .collect();
    let times = vf::pools::times();
    let tss = vf::pools::timestamps();
    let dts: Vec<DateTime> = {
        let ds = vf::pools::dates();
        let tms = [Time::midnight(), Time::new(11, 59, 59, 999_999_999).unwrap(), Time::new(23, 59, 59, 500_000_000).unwrap()];
        ds.iter().flat_map(|&d| tms.iter().map(move |&tm| DateTime::from_parts(d, tm))).collect()
    };
    let ny = vf::zones::rep().into_iter().find(|z| z.name == "America/New_York").and_then(|z| vf::zones::load_pair(&z).ok()).map(|p| p.jiff);
    let mut tzs: Vec<(String, TimeZone)> = vec![("UTC".into(), TimeZone::UTC), ("fixed(-05:45)".into(), TimeZone::fixed(Offset::from_seconds(-20_700).unwrap()))];
    if let Some(z) = ny {
        tzs.push(("America/New_York".into(), z));
    }
    cfgs.par_iter().for_each(|&(u, inc)| {
        let b = inc as i128 * UNITS[u].2;
        let unit = UNITS[u].0;
        let mut n = 0u64;
        let mut l = Loc::new();
        let check = |what: &str, case: &dyn Fn() -> String, got: Result<Option<i128>, String>, want: i128| match got {
            Err(p) => r.viol("difference", &format!("{}/{}", what, panic_sig(&p)), case(), p),
            Ok(None) => {
                // a rounded total beyond the span limit of 175_307_616 hours may be refused
                if want.abs() <= 175_307_616 * 3_600 * NS {
                    r.viol("difference", &format!("{}/err", what), case(), format!("jiff Err model {}", want))
                }
            }
            Ok(Some(g)) => {
                if g != want {
                    r.viol("difference", &format!("{}/value", what), case(), format!("jiff total {}ns model {}ns", g, want));
                }
            }
        };
        for (jm, mm, mname) in MODES {
            for &a in &times {
                for &c in &times {
                    let diff = conv::time_ns(c) - conv::time_ns(a);
                    let case = |op: &str| format!("Time {} {} {} smallest {}x{} {}", a, op, c, inc, UNITS[u].1, mname);
                    check("Time::until(rounded)", &|| case("until"), guard(|| a.until(TimeDifference::new(c).smallest(unit).increment(inc).mode(jm)).ok().map(span_ns)), num::round(diff, b, mm));
                    check("Time::since(rounded)", &|| case("since"), guard(|| a.since(TimeDifference::new(c).smallest(unit).increment(inc).mode(jm)).ok().map(span_ns)), num::round(-diff, b, mm));
                    l.shape(Ty::Time, diff, b, 1, num::round(diff, b, mm));
                    n += 2;
                }
            }
            for &a in &tss {
                for &c in &tss {
                    let diff = c.as_nanosecond() - a.as_nanosecond();
                    let case = |op: &str| format!("Timestamp {} {} {} largest h smallest {}x{} {}", conv::fmt_ns(a.as_nanosecond()), op, conv::fmt_ns(c.as_nanosecond()), inc, UNITS[u].1, mname);
                    check("Timestamp::until(rounded)", &|| case("until"), guard(|| a.until(TimestampDifference::new(c).largest(Unit::Hour).smallest(unit).increment(inc).mode(jm)).ok().map(span_ns)), num::round(diff, b, mm));
                    check("Timestamp::since(rounded)", &|| case("since"), guard(|| a.since(TimestampDifference::new(c).largest(Unit::Hour).smallest(unit).increment(inc).mode(jm)).ok().map(span_ns)), num::round(-diff, b, mm));
                    n += 2;
                }
            }
            // Zoned: with largest <= hours the difference is the one of the instants
            for (zname, tz) in &tzs {
                let zs: Vec<jiff::Zoned> = tss.iter().map(|ts| ts.to_zoned(tz.clone())).collect();
                for (ia, a) in zs.iter().enumerate() {
                    for (ic, c) in zs.iter().enumerate() {
                        let diff = tss[ic].as_nanosecond() - tss[ia].as_nanosecond();
                        let case = |op: &str| format!("Zoned {} {} {} {} largest h smallest {}x{} {}", zname, conv::fmt_ns(tss[ia].as_nanosecond()), op, conv::fmt_ns(tss[ic].as_nanosecond()), inc, UNITS[u].1, mname);
                        check("Zoned::until(rounded)", &|| case("until"), guard(|| a.until(ZonedDifference::new(c).largest(Unit::Hour).smallest(unit).increment(inc).mode(jm)).ok().map(span_ns)), num::round(diff, b, mm));
                        check("Zoned::since(rounded)", &|| case("since"), guard(|| a.since(ZonedDifference::new(c).largest(Unit::Hour).smallest(unit).increment(inc).mode(jm)).ok().map(span_ns)), num::round(-diff, b, mm));
                        n += 2;
                    }
                }
            }
            for &a in &dts {
                for &c in &dts {
                    let diff = conv::dt_civil_ns(c) - conv::dt_civil_ns(a);
                    let case = |op: &str| format!("DateTime {} {} {} largest h smallest {}x{} {}", a, op, c, inc, UNITS[u].1, mname);
                    check("DateTime::until(rounded)", &|| case("until"), guard(|| a.until(DateTimeDifference::new(c).largest(Unit::Hour).smallest(unit).increment(inc).mode(jm)).ok().map(span_ns)), num::round(diff, b, mm));
                    check("DateTime::since(rounded)", &|| case("since"), guard(|| a.since(DateTimeDifference::new(c).largest(Unit::Hour).smallest(unit).increment(inc).mode(jm)).ok().map(span_ns)), num::round(-diff, b, mm));
                    n += 2;
                }
            }
        }
        l.flush(t);
        r.add_states(n / 18);
        r.add_transitions(n);
        r.add_validated(n);
    });
    // increments that do not evenly divide the next larger unit must be refused here too
    let mut l = Loc::new();
    let mut n = 0u64;
    let a_t = Time::new(1, 2, 3, 456_789_123).unwrap();
    let c_t = Time::new(17, 45, 59, 999_999_999).unwrap();
    let a_ts = Timestamp::from_nanosecond(-1_500_000_000).unwrap();
    let c_ts = Timestamp::from_nanosecond(MODERN).unwrap();
    let a_dt = DateTime::from_parts(Date::new(0, 12, 31).unwrap(), a_t);
    let c_dt = DateTime::from_parts(Date::new(1, 1, 2).unwrap(), c_t);
    let a_z = a_ts.to_zoned(TimeZone::UTC);
    let c_z = c_ts.to_zoned(TimeZone::UTC);
    for u in 0..6 {
        let unit = UNITS[u].0;
        for inc in [0i64, -1, i64::MIN, 7, 13, NEXT[u] + 1, 2 * NEXT[u], i64::MAX] {
            if NEXT[u] % inc.max(1) == 0 && inc > 0 {
                continue;
            }
            for (jm, _mm, mname) in MODES {
                let outs: [(&str, Result<bool, String>); 8] = [
                    ("Time::until(rounded)", guard(|| a_t.until(TimeDifference::new(c_t).smallest(unit).increment(inc).mode(jm)).is_ok())),
                    ("Time::since(rounded)", guard(|| a_t.since(TimeDifference::new(c_t).smallest(unit).increment(inc).mode(jm)).is_ok())),
                    ("Timestamp::until(rounded)", guard(|| a_ts.until(TimestampDifference::new(c_ts).largest(Unit::Hour).smallest(unit).increment(inc).mode(jm)).is_ok())),
                    ("Timestamp::since(rounded)", guard(|| a_ts.since(TimestampDifference::new(c_ts).largest(Unit::Hour).smallest(unit).increment(inc).mode(jm)).is_ok())),
                    ("DateTime::until(rounded)", guard(|| a_dt.until(DateTimeDifference::new(c_dt).largest(Unit::Hour).smallest(unit).increment(inc).mode(jm)).is_ok())),
                    ("DateTime::since(rounded)", guard(|| a_dt.since(DateTimeDifference::new(c_dt).largest(Unit::Hour).smallest(unit).increment(inc).mode(jm)).is_ok())),
                    ("Zoned::until(rounded)", guard(|| a_z.until(ZonedDifference::new(&c_z).largest(Unit::Hour).smallest(unit).increment(inc).mode(jm)).is_ok())),
                    ("Zoned::since(rounded)", guard(|| a_z.since(ZonedDifference::new(&c_z).largest(Unit::Hour).smallest(unit).increment(inc).mode(jm)).is_ok())),
                ];
                for (what, got) in outs {
                    n += 1;
                    let case = format!("{} smallest {}x{} {}", what, inc, UNITS[u].1, mname);
                    match got {
                        Ok(false) => l.inc(C::DiffIllegalRejected),
                        // input class: with the default smallest unit (nanosecond) an increment <= 0
                        // skips the span rounding altogether (`rounding_may_change_span`)
                        Ok(true) if u == 0 && inc <= 0 => r.viol("difference", &format!("{}/nonpositive-increment-not-rejected:smallest=nanosecond", what), case, "jiff Ok but the increment is not positive"),
                        Ok(true) => r.viol("difference", &format!("{}/illegal-increment-not-rejected:{}", what, inc_class(inc)), case, "jiff Ok but the increment does not evenly divide the next larger unit"),
                        Err(p) => r.viol("difference", &format!("{}/illegal-increment:{}", what, panic_sig(&p)), case, p),
                    }
                }
            }
        }
    }
    l.flush(t);
    r.add_states(n);
    r.add_transitions(n);
    r.add_validated(n);
}
