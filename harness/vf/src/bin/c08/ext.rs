//! C08 coverage extensions (same technique: complete products of declared
//! alphabets against the i128 / R-cal reference of the parent module).
//!
//! * `boundary_steps`: for every start value, unit and direction the largest
//!   count `k` with an in-range result is *derived from the model* (bisection
//!   over the model's own in-range predicate), and `k`, `k + 1` are run: the
//!   last representable result and the first one beyond it, for single units
//!   and for every ordered pair of units (larger unit at 1, half way and at
//!   its own last value). Same for absolute durations (exact distance to the
//!   type's MIN / MAX, one nanosecond / one day either side).
//! * `operand_forms`: every accepted right-hand side *form* - by reference,
//!   through the explicit `*Arithmetic` wrapper (`From<T>` and `From<&T>`),
//!   and the compound assignment operators `+=` / `-=`.
//! * `datetime_helpers`: `DateTime::{tomorrow, yesterday, first_of_month,
//!   last_of_month, first_of_year, last_of_year, start_of_day, end_of_day,
//!   nth_weekday, nth_weekday_of_month}` (the `Date` versions belong to C01):
//!   the date moves by the calendar rule, the clock reading is unchanged (or
//!   00:00 / 23:59:59.999999999 for start / end of day).
//! * `calendar_grid`: every day of a set of years x every (years, months[,
//!   1 day]) span of a small grid: month-end clamping from days 28..31 into
//!   every month, Feb 29 +- years, order "months first, then days".

use super::*;
use jiff::civil::{DateArithmetic, DateTimeArithmetic, TimeArithmetic, Weekday};

const WDS: [Weekday; 7] = [
    Weekday::Sunday,
    Weekday::Monday,
    Weekday::Tuesday,
    Weekday::Wednesday,
    Weekday::Thursday,
    Weekday::Friday,
    Weekday::Saturday,
];

fn sp1(u: usize, v: i64) -> Sp {
    let mut sp = [0i64; 10];
    sp[u] = v;
    sp
}
fn sp2(u: usize, a: i64, w: usize, b: i64) -> Sp {
    let mut sp = [0i64; 10];
    sp[u] = a;
    sp[w] = b;
    sp
}

/// Largest `k` in `0..=limit` with `pred(k)`, given `pred(0)`, found by
/// bisection (the model's predicate is monotone in `k`; if it were not, the
/// result would still be *a* boundary: `pred(k) && !pred(k + 1)`).
fn kmax(limit: i64, pred: &dyn Fn(i64) -> bool) -> i64 {
    assert!(pred(0), "start value itself is in range");
    if pred(limit) {
        return limit;
    }
    let (mut lo, mut hi) = (0i64, limit);
    while hi - lo > 1 {
        let mid = lo + (hi - lo) / 2;
        if pred(mid) {
            lo = mid;
        } else {
            hi = mid;
        }
    }
    assert!(pred(lo) && !pred(lo + 1));
    lo
}

/// The boundary spans of one start value: for each unit in `units`, each
/// direction, `k` and `k + 1`; for each ordered pair, the larger unit at
/// 1, k/2 and k, the smaller at its own boundary.
fn boundary_spans(units: std::ops::Range<usize>, in_range: &dyn Fn(&Sp) -> bool) -> Vec<Sp> {
    let mut seen = BTreeSet::new();
    let mut out = vec![];
    let mut emit = |sp: Sp| {
        if sp.iter().any(|&x| x != 0) && seen.insert(sp) {
            out.push(sp);
        }
    };
    for s in [1i64, -1] {
        for u in units.clone() {
            let k1 = kmax(LIMITS[u], &|k| in_range(&sp1(u, s * k)));
            emit(sp1(u, s * k1));
            if k1 < LIMITS[u] {
                emit(sp1(u, s * (k1 + 1)));
            }
            let mut bases = vec![1, k1 / 2, k1];
            bases.retain(|&b| b >= 1 && b <= k1);
            bases.dedup();
            for w in (u + 1)..units.end {
                for &b in &bases {
                    let k2 = kmax(LIMITS[w], &|k| in_range(&sp2(u, s * b, w, s * k)));
                    emit(sp2(u, s * b, w, s * k2));
                    if k2 < LIMITS[w] {
                        emit(sp2(u, s * b, w, s * (k2 + 1)));
                    }
                }
            }
        }
    }
    out
}

fn sdur_of(ns: i128) -> Option<(i64, i32)> {
    let s = ns / NS; // both truncate toward zero: equal signs
    let n = ns % NS;
    i64::try_from(s).ok().map(|s| (s, n as i32))
}

pub fn boundary_steps(r: &Report, t: &Tally, dates: &[Date], times: &[Time]) {
    let (dmin, dmax) = (cal::min_day(), cal::max_day());
    let (dtmin, dtmax) = (conv::dt_min_ns(), conv::dt_max_ns());
    let n_span = AtomicU64::new(0);
    let n_dur = AtomicU64::new(0);
    let before = t.at_limit.load(Relaxed);

    // Date
    dates.par_iter().for_each(|&d| {
        let ymd = conv::date_ymd(d);
        let e = conv::date_epoch_day(d) as i128;
        let sps = boundary_spans(0..10, &|sp| model_date_add(ymd, &parts(sp, 1)).0.is_some());
        let mut k = 0u64;
        for sp in &sps {
            k += date_span_case(r, t, "boundary_steps", d, ymd, sp, to_span(sp), true);
        }
        n_span.fetch_add(sps.len() as u64, Relaxed);
        // absolute durations: whole days to the limit, the last nanosecond
        // that still truncates to it, and the first that does not
        let model = |ns: i128| -> Option<i64> {
            let x = e + ns / DAY_NS;
            if day_in_range(x) { Some(x as i64) } else { None }
        };
        let mut nd = 0u64;
        for (target, s) in [(dmax as i128, 1i128), (dmin as i128, -1)] {
            let base = (target - e) * DAY_NS;
            for ns in [base - s, base, base + s * (DAY_NS - 1), base + s * DAY_NS, base + s * (DAY_NS + 1)] {
                for w in [model(ns), model(-ns)] {
                    if w == Some(dmin) || w == Some(dmax) {
                        t.at_limit.fetch_add(1, Relaxed);
                    }
                }
                let sign = ns.signum() as i8;
                if let Some((sec, nn)) = sdur_of(ns) {
                    let dur = sdur(sec, nn);
                    let case = |op: &str| format!("Date {} {} sdur({}s,{}ns)", fmt_ymd(ymd), op, sec, nn);
                    k += six_ops!(r, t, "boundary_steps", "Date", "sdur", d, dur, conv::date_epoch_day, model(ns), model(-ns), sign, dmin, dmax, case, true, None, None);
                    nd += 1;
                }
                let a = ns.abs();
                if let Ok(sec) = u64::try_from(a / NS) {
                    let nn = (a % NS) as u32;
                    let dur = UDur::new(sec, nn);
                    let sign = a.signum() as i8;
                    let case = |op: &str| format!("Date {} {} udur({}s,{}ns)", fmt_ymd(ymd), op, sec, nn);
                    k += six_ops!(r, t, "boundary_steps", "Date", "udur", d, dur, conv::date_epoch_day, model(a), model(-a), sign, dmin, dmax, case, true, None, None);
                    nd += 1;
                }
            }
        }
        n_dur.fetch_add(nd, Relaxed);
        r.add_states(sps.len() as u64 + nd);
        r.add_transitions(k);
        r.add_validated(k);
    });

    // DateTime
    let dts: Vec<(Date, Time)> = dates.iter().flat_map(|&d| times.iter().map(move |&tm| (d, tm))).collect();
    dts.par_iter().for_each(|&(d, tm)| {
        let ymd = conv::date_ymd(d);
        let tod = time_ns(tm);
        let dt = DateTime::from_parts(d, tm);
        let c = dt_ns(dt);
        let sps = boundary_spans(0..10, &|sp| model_dt_add(ymd, tod, &parts(sp, 1)).0.is_some());
        let mut k = 0u64;
        for sp in &sps {
            k += dt_span_case(r, t, "boundary_steps", dt, ymd, tod, sp, to_span(sp), true);
        }
        n_span.fetch_add(sps.len() as u64, Relaxed);
        let model = |ns: i128| -> Option<i128> {
            let x = c + ns;
            if x >= dtmin && x <= dtmax { Some(x) } else { None }
        };
        let mut nd = 0u64;
        for (target, s) in [(dtmax, 1i128), (dtmin, -1)] {
            let base = target - c;
            for ns in [base - s, base, base + s, base + s * NS, base + s * DAY_NS] {
                for w in [model(ns), model(-ns)] {
                    if w == Some(dtmin) || w == Some(dtmax) {
                        t.at_limit.fetch_add(1, Relaxed);
                    }
                }
                let sign = ns.signum() as i8;
                if let Some((sec, nn)) = sdur_of(ns) {
                    let dur = sdur(sec, nn);
                    let case = |op: &str| format!("DateTime {}T{} {} sdur({}s,{}ns)", fmt_ymd(ymd), fmt_tod(tod), op, sec, nn);
                    k += six_ops!(r, t, "boundary_steps", "DateTime", "sdur", dt, dur, dt_ns, model(ns), model(-ns), sign, dtmin, dtmax, case, true, None, None);
                    nd += 1;
                }
                let a = ns.abs();
                if let Ok(sec) = u64::try_from(a / NS) {
                    let nn = (a % NS) as u32;
                    let dur = UDur::new(sec, nn);
                    let sign = a.signum() as i8;
                    let case = |op: &str| format!("DateTime {}T{} {} udur({}s,{}ns)", fmt_ymd(ymd), fmt_tod(tod), op, sec, nn);
                    k += six_ops!(r, t, "boundary_steps", "DateTime", "udur", dt, dur, dt_ns, model(a), model(-a), sign, dtmin, dtmax, case, true, None, None);
                    nd += 1;
                }
            }
        }
        n_dur.fetch_add(nd, Relaxed);
        r.add_states(sps.len() as u64 + nd);
        r.add_transitions(k);
        r.add_validated(k);
    });

    // Time: last count that stays inside the day, first that leaves it
    times.par_iter().for_each(|&tm| {
        let tod = time_ns(tm);
        let sps = boundary_spans(4..10, &|sp| (0..DAY_NS).contains(&(tod + parts(sp, 1).time_ns)));
        for sp in &sps {
            time_span_case(r, t, "boundary_steps", tm, tod, sp, to_span(sp));
        }
        n_span.fetch_add(sps.len() as u64, Relaxed);
        // durations: exactly to 00:00 / 23:59:59.999999999 and 1 ns beyond
        let mut nd = 0u64;
        for (target, s) in [(DAY_NS - 1, 1i128), (0, -1)] {
            let base = target - tod;
            for ns in [base - s, base, base + s] {
                let (sec, nn) = sdur_of(ns).unwrap();
                let case = |op: &str| format!("Time {} {} sdur({}s,{}ns)", fmt_tod(tod), op, sec, nn);
                time_dur_case(r, t, "boundary_steps", "sdur", tm, tod, sdur(sec, nn), ns, &case);
                let a = ns.abs();
                let (usec, unn) = ((a / NS) as u64, (a % NS) as u32);
                let case = |op: &str| format!("Time {} {} udur({}s,{}ns)", fmt_tod(tod), op, usec, unn);
                time_dur_case(r, t, "boundary_steps", "udur", tm, tod, UDur::new(usec, unn), a, &case);
                nd += 2;
            }
        }
        n_dur.fetch_add(nd, Relaxed);
        r.add_states(sps.len() as u64 + nd);
        r.add_transitions((sps.len() as u64 + nd) * 8);
        r.add_validated((sps.len() as u64 + nd) * 8);
    });

    let hits = t.at_limit.load(Relaxed) - before;
    r.count("boundary_spans", n_span.load(Relaxed));
    r.count("boundary_durations", n_dur.load(Relaxed));
    r.outcome("boundary_results_exactly_at_min_or_max", hits);
    r.require(hits > 0 && n_span.load(Relaxed) > 0 && n_dur.load(Relaxed) > 0, "boundary_steps: results exactly at the type limits were produced");
    r.note("boundary_steps: per (start, unit, direction) the last in-range count k (bisection over the model's predicate) and k+1; unit pairs with the larger unit at 1, k/2, k; durations at the exact distance to MIN/MAX and 1 ns / 1 s / 1 day either side");
}

/// `Time` x absolute duration (8 operations); `ns` is the exact operand.
/// Generic over the operand type through a tiny trait so that the same code
/// serves `SignedDuration` and `std::time::Duration`.
pub trait TimeOperand: Copy + Into<TimeArithmetic> {}
impl TimeOperand for SignedDuration {}
impl TimeOperand for UDur {}

pub fn time_dur_case<D: TimeOperand>(r: &Report, t: &Tally, sec: &str, kind: &str, tm: Time, tod: i128, dur: D, ns: i128, case: &dyn Fn(&str) -> String)
where
    Time: core::ops::Add<D, Output = Time> + core::ops::Sub<D, Output = Time>,
{
    for dir in [1i128, -1] {
        let total = tod + dir * ns;
        let in_day = (0..DAY_NS).contains(&total);
        let checked = if in_day { Some(total) } else { None };
        let neg = dir * ns < 0;
        let sat = checked.unwrap_or(if neg { 0 } else { DAY_NS - 1 });
        let wrap = total.rem_euclid(DAY_NS);
        if in_day {
            t.ok.fetch_add(1, Relaxed);
            if total == 0 || total == DAY_NS - 1 {
                t.at_limit.fetch_add(1, Relaxed);
            }
        } else {
            t.err.fetch_add(1, Relaxed);
            t.wrapped.fetch_add(1, Relaxed);
            if neg { t.sat_min.fetch_add(1, Relaxed) } else { t.sat_max.fetch_add(1, Relaxed) };
        }
        if dir > 0 {
            ck_checked(r, sec, &format!("Time::checked_add({})", kind), None, &|| case("checked_add"), guard(|| tm.checked_add(dur).ok().map(time_ns)), &checked);
            ck_total(r, sec, &format!("Time::saturating_add({})", kind), "value", None, &|| case("saturating_add"), guard(|| time_ns(tm.saturating_add(dur))), &sat);
            ck_total(r, sec, &format!("Time::wrapping_add({})", kind), "value", None, &|| case("wrapping_add"), guard(|| time_ns(tm.wrapping_add(dur))), &wrap);
            ck_total(r, sec, &format!("Time + {}", kind), "value", None, &|| case("+"), guard(|| time_ns(tm + dur)), &wrap);
        } else {
            ck_checked(r, sec, &format!("Time::checked_sub({})", kind), None, &|| case("checked_sub"), guard(|| tm.checked_sub(dur).ok().map(time_ns)), &checked);
            ck_total(r, sec, &format!("Time::saturating_sub({})", kind), "value", None, &|| case("saturating_sub"), guard(|| time_ns(tm.saturating_sub(dur))), &sat);
            ck_total(r, sec, &format!("Time::wrapping_sub({})", kind), "value", None, &|| case("wrapping_sub"), guard(|| time_ns(tm.wrapping_sub(dur))), &wrap);
            ck_total(r, sec, &format!("Time - {}", kind), "value", None, &|| case("-"), guard(|| time_ns(tm - dur)), &wrap);
        }
    }
}

// ---------------------------------------------------------------------------
// operand forms
// ---------------------------------------------------------------------------

/// All alternative spellings of one (value, operand) pair for `Date` and
/// `DateTime`: 4 by-reference calls, 8 through the wrapper type, `+=`, `-=`.
macro_rules! forms_dd {
    ($r:expr, $t:expr, $sec:expr, $ty:literal, $kind:literal, $arith:ident, $v:expr, $x:expr, $conv:expr,
     $add:expr, $sub:expr, $sign:expr, $min:expr, $max:expr, $case:expr) => {{
        let (v, x) = ($v, $x);
        let add = $add;
        let sub = $sub;
        let sign: i8 = $sign;
        let want_sa = add.unwrap_or(if sign < 0 { $min } else { $max });
        let want_ss = sub.unwrap_or(if sign < 0 { $max } else { $min });
        // by reference
        ck_checked($r, $sec, concat!($ty, "::checked_add(&", $kind, ")"), None, &|| $case("checked_add(&)"), guard(|| v.checked_add(&x).ok().map($conv)), &add);
        ck_checked($r, $sec, concat!($ty, "::checked_sub(&", $kind, ")"), None, &|| $case("checked_sub(&)"), guard(|| v.checked_sub(&x).ok().map($conv)), &sub);
        ck_total($r, $sec, concat!($ty, "::saturating_add(&", $kind, ")"), "value", None, &|| $case("saturating_add(&)"), guard(|| $conv(v.saturating_add(&x))), &want_sa);
        ck_total($r, $sec, concat!($ty, "::saturating_sub(&", $kind, ")"), "value", None, &|| $case("saturating_sub(&)"), guard(|| $conv(v.saturating_sub(&x))), &want_ss);
        // explicit wrapper, From<T> and From<&T>
        ck_checked($r, $sec, concat!($ty, "::checked_add(", stringify!($arith), "::from(", $kind, "))"), None, &|| $case("checked_add(from)"), guard(|| v.checked_add($arith::from(x)).ok().map($conv)), &add);
        ck_checked($r, $sec, concat!($ty, "::checked_sub(", stringify!($arith), "::from(", $kind, "))"), None, &|| $case("checked_sub(from)"), guard(|| v.checked_sub($arith::from(x)).ok().map($conv)), &sub);
        ck_total($r, $sec, concat!($ty, "::saturating_add(", stringify!($arith), "::from(", $kind, "))"), "value", None, &|| $case("saturating_add(from)"), guard(|| $conv(v.saturating_add($arith::from(x)))), &want_sa);
        ck_total($r, $sec, concat!($ty, "::saturating_sub(", stringify!($arith), "::from(", $kind, "))"), "value", None, &|| $case("saturating_sub(from)"), guard(|| $conv(v.saturating_sub($arith::from(x)))), &want_ss);
        ck_checked($r, $sec, concat!($ty, "::checked_add(", stringify!($arith), "::from(&", $kind, "))"), None, &|| $case("checked_add(from&)"), guard(|| v.checked_add($arith::from(&x)).ok().map($conv)), &add);
        ck_checked($r, $sec, concat!($ty, "::checked_sub(", stringify!($arith), "::from(&", $kind, "))"), None, &|| $case("checked_sub(from&)"), guard(|| v.checked_sub($arith::from(&x)).ok().map($conv)), &sub);
        ck_total($r, $sec, concat!($ty, "::saturating_add(", stringify!($arith), "::from(&", $kind, "))"), "value", None, &|| $case("saturating_add(from&)"), guard(|| $conv(v.saturating_add($arith::from(&x)))), &want_sa);
        ck_total($r, $sec, concat!($ty, "::saturating_sub(", stringify!($arith), "::from(&", $kind, "))"), "value", None, &|| $case("saturating_sub(from&)"), guard(|| $conv(v.saturating_sub($arith::from(&x)))), &want_ss);
        // compound assignment: documented to behave as `+` / `-` (panic on overflow)
        ck_operator($r, $t, $sec, concat!($ty, " += ", $kind), None, &|| $case("+="), guard(|| { let mut m = v; m += x; $conv(m) }), &add);
        ck_operator($r, $t, $sec, concat!($ty, " -= ", $kind), None, &|| $case("-="), guard(|| { let mut m = v; m -= x; $conv(m) }), &sub);
        14u64
    }};
}

/// The same for `Time` (which adds the wrapping calls; `+=`/`-=` wrap).
/// `f6`: exact total outside i64 with a span operand - every wrapping-family
/// failure then carries the signature of known finding F6.
macro_rules! forms_time {
    ($r:expr, $sec:expr, $kind:literal, $tm:expr, $x:expr, $checked_a:expr, $checked_s:expr, $sat_a:expr, $sat_s:expr,
     $wrap_a:expr, $wrap_s:expr, $f6a:expr, $f6s:expr, $case:expr) => {{
        let (tm, x) = ($tm, $x);
        let (ca, cs): (Option<i128>, Option<i128>) = ($checked_a, $checked_s);
        let (sa, ss): (i128, i128) = ($sat_a, $sat_s);
        let (wa, ws): (i128, i128) = ($wrap_a, $wrap_s);
        let (f6a, f6s): (bool, bool) = ($f6a, $f6s);
        ck_checked($r, $sec, concat!("Time::checked_add(&", $kind, ")"), None, &|| $case("checked_add(&)"), guard(|| tm.checked_add(&x).ok().map(time_ns)), &ca);
        ck_checked($r, $sec, concat!("Time::checked_sub(&", $kind, ")"), None, &|| $case("checked_sub(&)"), guard(|| tm.checked_sub(&x).ok().map(time_ns)), &cs);
        ck_total($r, $sec, concat!("Time::saturating_add(&", $kind, ")"), "value", None, &|| $case("saturating_add(&)"), guard(|| time_ns(tm.saturating_add(&x))), &sa);
        ck_total($r, $sec, concat!("Time::saturating_sub(&", $kind, ")"), "value", None, &|| $case("saturating_sub(&)"), guard(|| time_ns(tm.saturating_sub(&x))), &ss);
        ck_checked($r, $sec, concat!("Time::checked_add(TimeArithmetic::from(", $kind, "))"), None, &|| $case("checked_add(from)"), guard(|| tm.checked_add(TimeArithmetic::from(x)).ok().map(time_ns)), &ca);
        ck_checked($r, $sec, concat!("Time::checked_sub(TimeArithmetic::from(&", $kind, "))"), None, &|| $case("checked_sub(from&)"), guard(|| tm.checked_sub(TimeArithmetic::from(&x)).ok().map(time_ns)), &cs);
        ck_total($r, $sec, concat!("Time::saturating_add(TimeArithmetic::from(&", $kind, "))"), "value", None, &|| $case("saturating_add(from&)"), guard(|| time_ns(tm.saturating_add(TimeArithmetic::from(&x)))), &sa);
        ck_total($r, $sec, concat!("Time::saturating_sub(TimeArithmetic::from(", $kind, "))"), "value", None, &|| $case("saturating_sub(from)"), guard(|| time_ns(tm.saturating_sub(TimeArithmetic::from(x)))), &ss);
        const F6S: &str = "Time::wrapping_{add,sub}(span)";
        const F6C: &str = "mod24h:|total_ns|>i64::MAX";
        let pick = |f6: bool, sig: &'static str| -> (&'static str, &'static str) { if f6 { (F6S, F6C) } else { (sig, "value") } };
        let (s, c) = pick(f6a, concat!("Time::wrapping_add(&", $kind, ")"));
        f6_aware($r, $sec, s, c, f6a, &|| $case("wrapping_add(&)"), guard(|| time_ns(tm.wrapping_add(&x))), wa);
        let (s, c) = pick(f6s, concat!("Time::wrapping_sub(&", $kind, ")"));
        f6_aware($r, $sec, s, c, f6s, &|| $case("wrapping_sub(&)"), guard(|| time_ns(tm.wrapping_sub(&x))), ws);
        let (s, c) = pick(f6a, concat!("Time::wrapping_add(TimeArithmetic::from(", $kind, "))"));
        f6_aware($r, $sec, s, c, f6a, &|| $case("wrapping_add(from)"), guard(|| time_ns(tm.wrapping_add(TimeArithmetic::from(x)))), wa);
        let (s, c) = pick(f6s, concat!("Time::wrapping_sub(TimeArithmetic::from(&", $kind, "))"));
        f6_aware($r, $sec, s, c, f6s, &|| $case("wrapping_sub(from&)"), guard(|| time_ns(tm.wrapping_sub(TimeArithmetic::from(&x)))), ws);
        let (s, c) = pick(f6a, concat!("Time += ", $kind));
        f6_aware($r, $sec, s, c, f6a, &|| $case("+="), guard(|| { let mut m = tm; m += x; time_ns(m) }), wa);
        let (s, c) = pick(f6s, concat!("Time -= ", $kind));
        f6_aware($r, $sec, s, c, f6s, &|| $case("-="), guard(|| { let mut m = tm; m -= x; time_ns(m) }), ws);
        14u64
    }};
}

/// Operand alphabet of the forms section: zero, every single-unit span of the
/// pool, the all-unit mixes and the y+mo+d, mo+d+h, d+h+ns mixes (both signs).
fn form_spans(spans: &[(Sp, Span)]) -> Vec<(Sp, Span)> {
    spans
        .iter()
        .filter(|(sp, _)| {
            let nz: Vec<usize> = (0..10).filter(|&u| sp[u] != 0).collect();
            nz.len() <= 1 || nz.len() == 10 || nz == [0, 1, 3] || nz == [1, 3, 4] || nz == [3, 4, 9]
        })
        .copied()
        .collect()
}

pub fn operand_forms(r: &Report, t: &Tally, dates: &[Date], times: &[Time], spans: &[(Sp, Span)], sdurs: &[(i64, i32)], udurs: &[(u64, u32)]) {
    let (dmin, dmax) = (cal::min_day(), cal::max_day());
    let (dtmin, dtmax) = (conv::dt_min_ns(), conv::dt_max_ns());
    let fs = form_spans(spans);
    r.count("form_spans", fs.len() as u64);
    let panics_before = t.op_panics.load(Relaxed);

    dates.par_iter().for_each(|&d| {
        let ymd = conv::date_ymd(d);
        let e = conv::date_epoch_day(d) as i128;
        let mut k = 0u64;
        let mut n = 0u64;
        for (sp, span) in &fs {
            let add = model_date_add(ymd, &parts(sp, 1)).0;
            let sub = model_date_add(ymd, &parts(sp, -1)).0;
            let sign = parts(sp, 1).sign;
            let case = |op: &str| format!("Date {} {} {}", fmt_ymd(ymd), op, fmt_sp(sp));
            k += forms_dd!(r, t, "operand_forms", "Date", "span", DateArithmetic, d, *span, conv::date_epoch_day, add, sub, sign, dmin, dmax, case);
            n += 1;
        }
        let model = |ns: i128| -> Option<i64> {
            let x = e + ns / DAY_NS;
            if day_in_range(x) { Some(x as i64) } else { None }
        };
        for &(s, nn) in sdurs {
            let ns = s as i128 * NS + nn as i128;
            let case = |op: &str| format!("Date {} {} sdur({}s,{}ns)", fmt_ymd(ymd), op, s, nn);
            k += forms_dd!(r, t, "operand_forms", "Date", "sdur", DateArithmetic, d, sdur(s, nn), conv::date_epoch_day, model(ns), model(-ns), ns.signum() as i8, dmin, dmax, case);
            n += 1;
        }
        for &(s, nn) in udurs {
            let ns = s as i128 * NS + nn as i128;
            let case = |op: &str| format!("Date {} {} udur({}s,{}ns)", fmt_ymd(ymd), op, s, nn);
            k += forms_dd!(r, t, "operand_forms", "Date", "udur", DateArithmetic, d, UDur::new(s, nn), conv::date_epoch_day, model(ns), model(-ns), ns.signum() as i8, dmin, dmax, case);
            n += 1;
        }
        r.add_states(n);
        r.add_transitions(k);
        r.add_validated(k);
    });

    // DateTime: every date x four clock readings
    let tsel: Vec<Time> = [0usize, 7, 9, 11].iter().map(|&i| times[i]).collect();
    let dts: Vec<(Date, Time)> = dates.iter().flat_map(|&d| tsel.iter().map(move |&tm| (d, tm))).collect();
    dts.par_iter().for_each(|&(d, tm)| {
        let ymd = conv::date_ymd(d);
        let tod = time_ns(tm);
        let dt = DateTime::from_parts(d, tm);
        let c = dt_ns(dt);
        let mut k = 0u64;
        let mut n = 0u64;
        for (sp, span) in &fs {
            let add = model_dt_add(ymd, tod, &parts(sp, 1)).0;
            let sub = model_dt_add(ymd, tod, &parts(sp, -1)).0;
            let sign = parts(sp, 1).sign;
            let case = |op: &str| format!("DateTime {}T{} {} {}", fmt_ymd(ymd), fmt_tod(tod), op, fmt_sp(sp));
            k += forms_dd!(r, t, "operand_forms", "DateTime", "span", DateTimeArithmetic, dt, *span, dt_ns, add, sub, sign, dtmin, dtmax, case);
            n += 1;
        }
        let model = |ns: i128| -> Option<i128> {
            let x = c + ns;
            if x >= dtmin && x <= dtmax { Some(x) } else { None }
        };
        for &(s, nn) in sdurs {
            let ns = s as i128 * NS + nn as i128;
            let case = |op: &str| format!("DateTime {}T{} {} sdur({}s,{}ns)", fmt_ymd(ymd), fmt_tod(tod), op, s, nn);
            k += forms_dd!(r, t, "operand_forms", "DateTime", "sdur", DateTimeArithmetic, dt, sdur(s, nn), dt_ns, model(ns), model(-ns), ns.signum() as i8, dtmin, dtmax, case);
            n += 1;
        }
        for &(s, nn) in udurs {
            let ns = s as i128 * NS + nn as i128;
            let case = |op: &str| format!("DateTime {}T{} {} udur({}s,{}ns)", fmt_ymd(ymd), fmt_tod(tod), op, s, nn);
            k += forms_dd!(r, t, "operand_forms", "DateTime", "udur", DateTimeArithmetic, dt, UDur::new(s, nn), dt_ns, model(ns), model(-ns), ns.signum() as i8, dtmin, dtmax, case);
            n += 1;
        }
        r.add_states(n);
        r.add_transitions(k);
        r.add_validated(k);
    });

    // Time
    times.par_iter().for_each(|&tm| {
        let tod = time_ns(tm);
        let mut k = 0u64;
        let mut n = 0u64;
        // (checked, saturating, wrapping, outside-i64) of tod + delta
        let eval = |delta: i128, cal_nonzero: bool, sign: i8| -> (Option<i128>, i128, i128, bool) {
            let total = tod + delta;
            let in_day = (0..DAY_NS).contains(&total) && !cal_nonzero;
            let checked = if in_day { Some(total) } else { None };
            let sat = checked.unwrap_or(if sign < 0 { 0 } else { DAY_NS - 1 });
            (checked, sat, total.rem_euclid(DAY_NS), total > i64::MAX as i128 || total < i64::MIN as i128)
        };
        for (sp, span) in &fs {
            let (pa, ps) = (parts(sp, 1), parts(sp, -1));
            let (ca, sa, wa, f6a) = eval(pa.time_ns, pa.cal_nonzero, pa.sign);
            let (cs, ss, ws, f6s) = eval(ps.time_ns, ps.cal_nonzero, ps.sign);
            let case = |op: &str| format!("Time {} {} {}", fmt_tod(tod), op, fmt_sp(sp));
            k += forms_time!(r, "operand_forms", "span", tm, *span, ca, cs, sa, ss, wa, ws, f6a, f6s, case);
            n += 1;
        }
        for &(s, nn) in sdurs {
            let ns = s as i128 * NS + nn as i128;
            let (ca, sa, wa, _) = eval(ns, false, ns.signum() as i8);
            let (cs, ss, ws, _) = eval(-ns, false, (-ns).signum() as i8);
            let case = |op: &str| format!("Time {} {} sdur({}s,{}ns)", fmt_tod(tod), op, s, nn);
            k += forms_time!(r, "operand_forms", "sdur", tm, sdur(s, nn), ca, cs, sa, ss, wa, ws, false, false, case);
            n += 1;
        }
        for &(s, nn) in udurs {
            let ns = s as i128 * NS + nn as i128;
            let (ca, sa, wa, _) = eval(ns, false, ns.signum() as i8);
            let (cs, ss, ws, _) = eval(-ns, false, (-ns).signum() as i8);
            let case = |op: &str| format!("Time {} {} udur({}s,{}ns)", fmt_tod(tod), op, s, nn);
            k += forms_time!(r, "operand_forms", "udur", tm, UDur::new(s, nn), ca, cs, sa, ss, wa, ws, false, false, case);
            n += 1;
        }
        r.add_states(n);
        r.add_transitions(k);
        r.add_validated(k);
    });
    let p = t.op_panics.load(Relaxed) - panics_before;
    r.outcome("compound_assignment_panics_expected_and_seen", p);
    r.require(p > 0 && !fs.is_empty(), "operand_forms: += / -= overflow panics observed");
    r.note("operand_forms: by-reference operands, explicit Date/DateTime/TimeArithmetic::from(T) and from(&T), and += / -= for zero, every single-unit span, the fixed mixes, every signed and unsigned duration of the pools");
}

// ---------------------------------------------------------------------------
// DateTime helpers
// ---------------------------------------------------------------------------

/// Every day of the given years.
fn days_of_years(years: &[i64]) -> Vec<i64> {
    let mut v = vec![];
    for &y in years {
        let lo = cal::days_from_civil(y, 1, 1);
        let hi = cal::days_from_civil(y, 12, 31);
        v.extend(lo..=hi);
    }
    v
}

/// "nth weekday from this day, not counting it": the first such weekday
/// strictly after (before) the day, then whole weeks. `None` when nth == 0,
/// when |nth| is beyond the documented weeks limit of a span, or when the
/// result is outside the supported range.
fn nth_weekday_model(e: i64, nth: i64, wd: i64) -> Option<i64> {
    if nth == 0 || nth.abs() > LIMITS[2] {
        return None;
    }
    let step = if nth > 0 { 1 } else { -1 };
    // by plain search over the seven following (preceding) days
    let first = (1..=7).map(|k| e + step * k).find(|&x| cal::weekday_from_days(x) as i64 == wd).unwrap();
    let x = first as i128 + step as i128 * 7 * (nth.abs() as i128 - 1);
    if day_in_range(x) { Some(x as i64) } else { None }
}

pub fn datetime_helpers(r: &Report, dates: &[Date], times: &[Time], thorough: bool) {
    let years: &[i64] = if thorough {
        &[-9999, -9998, -401, -400, -100, -4, -1, 0, 1, 4, 100, 1600, 1900, 1969, 1970, 2000, 2023, 2024, 2100, 9998, 9999]
    } else {
        &[-9999, -4, -1, 0, 1900, 2000, 2023, 2024, 9999]
    };
    let mut days = days_of_years(years);
    days.extend(dates.iter().map(|&d| conv::date_epoch_day(d)));
    days.sort();
    days.dedup();
    let tsel: Vec<Time> = if thorough { times.to_vec() } else { [0usize, 2, 7, 11].iter().map(|&i| times[i]).collect() };
    let (dmin, dmax) = (cal::min_day(), cal::max_day());
    let n_err = AtomicU64::new(0);
    let n_ok = AtomicU64::new(0);
    let big: &[i64] = &[0, 1, -1, 2, -2, 5, -5, 53, -53, 600_000, -600_000, 1_043_497, -1_043_497, 1_043_498, -1_043_498, i32::MAX as i64, i32::MIN as i64];
    let small: &[i64] = &[1, -1, 2, -2];
    let pool_days: BTreeSet<i64> = dates.iter().map(|&d| conv::date_epoch_day(d)).collect();
    days.par_iter().for_each(|&e| {
        let (y, m, dd) = cal::civil_from_days(e);
        let d = conv::date_from_epoch_day(e).unwrap();
        let mut n = 0u64;
        for &tm in &tsel {
            let tod = time_ns(tm);
            let dt = DateTime::from_parts(d, tm);
            let case = |op: &str| format!("DateTime {}T{} {}", fmt_ymd((y, m, dd)), fmt_tod(tod), op);
            let at = |day: i64, tod: i128| -> i128 { day as i128 * DAY_NS + tod };
            let mut opt = |name: &str, got: Result<Option<i128>, String>, want: Option<i128>| {
                n += 1;
                if want.is_some() { n_ok.fetch_add(1, Relaxed) } else { n_err.fetch_add(1, Relaxed) };
                ck_checked(r, "datetime_helpers", &format!("DateTime::{}", name.split('(').next().unwrap()), None, &|| case(name), got, &want);
            };
            opt("tomorrow", guard(|| dt.tomorrow().ok().map(dt_ns)), if e < dmax { Some(at(e + 1, tod)) } else { None });
            opt("yesterday", guard(|| dt.yesterday().ok().map(dt_ns)), if e > dmin { Some(at(e - 1, tod)) } else { None });
            opt("first_of_month", guard(|| Some(dt_ns(dt.first_of_month()))), Some(at(cal::days_from_civil(y, m, 1), tod)));
            opt("last_of_month", guard(|| Some(dt_ns(dt.last_of_month()))), Some(at(cal::days_from_civil(y, m, cal::days_in_month(y, m)), tod)));
            opt("first_of_year", guard(|| Some(dt_ns(dt.first_of_year()))), Some(at(cal::days_from_civil(y, 1, 1), tod)));
            opt("last_of_year", guard(|| Some(dt_ns(dt.last_of_year()))), Some(at(cal::days_from_civil(y, 12, 31), tod)));
            opt("start_of_day", guard(|| Some(dt_ns(dt.start_of_day()))), Some(at(e, 0)));
            opt("end_of_day", guard(|| Some(dt_ns(dt.end_of_day()))), Some(at(e, DAY_NS - 1)));
            for nth in -6..=6i64 {
                for (wi, wd) in WDS.iter().enumerate() {
                    let want = cal::nth_weekday_of_month(y, m, nth, wi as u8).map(|x| at(x, tod));
                    let name = format!("nth_weekday_of_month({},{})", nth, wi);
                    opt(&name, guard(|| dt.nth_weekday_of_month(nth as i8, *wd).ok().map(dt_ns)), want);
                }
            }
            let nths = if pool_days.contains(&e) { big } else { small };
            for &nth in nths {
                for (wi, wd) in WDS.iter().enumerate() {
                    let want = nth_weekday_model(e, nth, wi as i64).map(|x| at(x, tod));
                    let name = format!("nth_weekday({},{})", nth, wi);
                    opt(&name, guard(|| dt.nth_weekday(nth as i32, *wd).ok().map(dt_ns)), want);
                }
            }
        }
        r.add_states(tsel.len() as u64);
        r.add_transitions(n);
        r.add_validated(n);
    });
    r.count("datetime_helper_days", days.len() as u64);
    r.outcome("datetime_helper_results", n_ok.load(Relaxed));
    r.outcome("datetime_helper_errors_expected", n_err.load(Relaxed));
    r.require(n_ok.load(Relaxed) > 0 && n_err.load(Relaxed) > 0, "datetime_helpers: both results and documented errors observed");
    r.note(format!("datetime_helpers: every day of {} years + the date pool x {} clock readings; nth_weekday_of_month nth in -6..=6, nth_weekday nth in +-1, +-2 (pool dates: up to the i32 limits); |nth| beyond the weeks limit of a span is outside the documented domain and expected to fail", years.len(), tsel.len()));
}

// ---------------------------------------------------------------------------
// calendar grid
// ---------------------------------------------------------------------------

pub fn calendar_grid(r: &Report, t: &Tally, thorough: bool) {
    let years: &[i64] = if thorough {
        &[-9999, -9998, -401, -400, -100, -4, -1, 0, 1, 4, 100, 1600, 1900, 2000, 2023, 2024, 2100, 9998, 9999]
    } else {
        &[-9999, -4, 0, 1900, 2000, 2023, 2024, 9999]
    };
    let days = days_of_years(years);
    let yv: &[i64] = if thorough { &[0, 1, 2, 3, 4, 5, 96, 100, 400] } else { &[0, 1, 3, 4, 100] };
    let mut mv: Vec<i64> = (0..=25).collect();
    if thorough {
        mv.extend([47, 48, 49, 1_199, 1_200, 1_201]);
    }
    let mut sps: Vec<Sp> = vec![];
    let mut seen = BTreeSet::new();
    for &y in yv {
        for &m in &mv {
            // [, 1 day][, 13 hours]: 12:00:00.5 +- 13 h crosses midnight, so
            // "months first (clamp), then days, then the time carry" is
            // distinguishable from any other order on days 29..31
            for (d, h) in [(0i64, 0i64), (1, 0), (0, 13), (1, 13)] {
                if y == 0 && m == 0 {
                    continue;
                }
                for s in [1i64, -1] {
                    let mut sp = [0i64; 10];
                    sp[0] = s * y;
                    sp[1] = s * m;
                    sp[3] = s * d;
                    sp[4] = s * h;
                    if seen.insert(sp) {
                        sps.push(sp);
                    }
                }
            }
        }
    }
    let spans: Vec<(Sp, Span)> = sps.iter().map(|sp| (*sp, to_span(sp))).collect();
    r.count("grid_days", days.len() as u64);
    r.count("grid_spans", spans.len() as u64);
    let clamped_before = t.clamped.load(Relaxed);
    let tm = Time::new(12, 0, 0, 500_000_000).unwrap();
    let tod = time_ns(tm);
    days.par_iter().for_each(|&e| {
        let ymd = cal::civil_from_days(e);
        let d = conv::date_from_epoch_day(e).unwrap();
        let dt = DateTime::from_parts(d, tm);
        let mut k = 0u64;
        for (sp, span) in &spans {
            k += date_span_case(r, t, "calendar_grid", d, ymd, sp, *span, false);
            k += dt_span_case(r, t, "calendar_grid", dt, ymd, tod, sp, *span, false);
        }
        r.add_states(spans.len() as u64 * 2);
        r.add_transitions(k);
        r.add_validated(k);
    });
    let c = t.clamped.load(Relaxed) - clamped_before;
    r.outcome("grid_day_clamped_to_month_length", c);
    r.require(c > 0, "calendar_grid: month additions that clamp the day occur");
    r.note(format!("calendar_grid: every day of {} years x {} (years, months[, 1 day][, 13 hours]) spans, Date and DateTime (12:00:00.5), checked/saturating add/sub", years.len(), spans.len()));
}
