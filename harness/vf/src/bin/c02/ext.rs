//! C02 coverage extensions.
//!
//! * `offset_local_boundary`: for **every** offset, instants and civil
//!   datetimes *derived from that offset*: the local-day boundary (+-1 ns,
//!   +-1 s) on a set of anchor days, and both ends of the timestamp range
//!   seen from the civil side (the civil datetime exactly at, and 1 ns / 1 s
//!   outside, `MIN + o` and `MAX + o`).
//! * `fixed_zone_routes`: every other public route between a timestamp and a
//!   civil datetime under a fixed offset (`TimeZone::fixed`, `Zoned::new`,
//!   `Timestamp::to_zoned`, `DateTime::to_zoned`, `AmbiguousTimestamp`,
//!   `AmbiguousZoned`), for every offset.
//! * `offset_values`: an `Offset` denotes an integer number of seconds:
//!   constructors, accessors, comparison, differences and (documented)
//!   truncating arithmetic.
//! * `views_sweep`, `ctor_dense`, `system_time`, `ordering`: the unit views and
//!   constructors on dense ranges, `SystemTime` conversions, total order.
//!
//! Oracle everywhere: plain `i128` arithmetic + `refmodel::cal`.

use super::*;
use jiff::tz::{AmbiguousOffset, Disambiguation, Dst, TimeZone};
use jiff::{Span, Zoned};
use std::time::{Duration, SystemTime};

fn cmin() -> i128 {
    cal::min_day() as i128 * DAY_NS
}
fn cmax() -> i128 {
    (cal::max_day() as i128 + 1) * DAY_NS - 1
}

/// Runs `f(o, off)` for every offset, in parallel chunks; `mk` makes the
/// per-chunk accumulator, `done` folds it.
fn for_all_offsets<A: Send>(
    r: &Report,
    section: &'static str,
    mk: impl Fn() -> A + Sync,
    f: impl Fn(i32, Offset, &mut A) + Sync,
    done: impl Fn(A) + Sync,
) {
    let nchunks = 256i32;
    let total = 2 * OFF_MAX + 1;
    (0..nchunks).into_par_iter().for_each(|c| {
        let a = -OFF_MAX + total * c / nchunks;
        let b = -OFF_MAX + total * (c + 1) / nchunks - 1;
        let mut acc = mk();
        for o in a..=b {
            match guard(|| Offset::from_seconds(o)) {
                Ok(Ok(off)) => f(o, off, &mut acc),
                Ok(Err(e)) => r.viol(section, "Offset::from_seconds/rejected-in-range", format!("off={}s", o), e.to_string()),
                Err(p) => r.viol(section, &format!("Offset::from_seconds/{}", panic_sig(&p)), format!("off={}s", o), p),
            }
        }
        done(acc);
    });
}

// ---------------------------------------------------------------------------
// offset_local_boundary
// ---------------------------------------------------------------------------

pub fn offset_local_boundary(r: &Report, totals: &[AtomicU64; 5]) {
    let section = "offset_local_boundary";
    let (cmin, cmax) = (cmin(), cmax());
    let dfc = cal::days_from_civil;
    // local midnights: d*DAY + delta covers the end of day d-1 and the start of day d
    let days: Vec<i64> = vec![
        cal::min_day(),
        cal::min_day() + 1,
        cal::min_day() + 2,
        dfc(-1, 3, 1),
        dfc(0, 1, 1), // year -1 / year 0
        dfc(0, 2, 29),
        dfc(0, 3, 1),
        dfc(1, 1, 1), // day 366 of year 0 / year 1
        -1,
        0,
        1,
        2,
        dfc(2000, 3, 1),
        dfc(2024, 2, 29),
        dfc(2024, 3, 1),
        dfc(2025, 1, 1), // day 366 of 2024
        dfc(2100, 3, 1),
        cal::max_day() - 1,
        cal::max_day(),
        cal::max_day() + 1,
    ];
    let deltas: [i128; 7] = [-NS, -2, -1, 0, 1, NS - 1, NS];
    let n_in = AtomicU64::new(0);
    let n_out = AtomicU64::new(0);
    let n_edge_out = AtomicU64::new(0);
    for_all_offsets(
        r,
        section,
        || (Tally::default(), 0u64, 0u64, 0u64),
        |o, off, acc| {
            let one = |local: i128, edge: bool, acc: &mut (Tally, u64, u64, u64)| {
                if !(cmin..=cmax).contains(&local) {
                    return;
                }
                let exact = local - o as i128 * NS;
                if (MIN_NS..=MAX_NS).contains(&exact) {
                    acc.1 += 1;
                    check_t(r, section, exact, o, off, &mut acc.0);
                } else {
                    acc.2 += 1;
                    if edge {
                        acc.3 += 1;
                    }
                    match civ_to_jiff(&civ_of_local(local)) {
                        Some(dt) => check_c2t(r, section, dt, local, o, off, &mut acc.0),
                        None => r.viol(section, "DateTime::new/rejected-in-range", format!("civil={}", civ_str(&civ_of_local(local))), "model: valid civil datetime"),
                    }
                }
            };
            for &d in &days {
                for &delta in &deltas {
                    one(d as i128 * DAY_NS + delta, false, acc);
                }
            }
            // both ends of the instant range, seen from the civil side at this offset
            for base in [MIN_NS, MAX_NS] {
                for delta in [-NS, -NS + 1, -2, -1, 0, 1, 2, NS - 1, NS] {
                    one(base + delta + o as i128 * NS, true, acc);
                }
            }
        },
        |acc| {
            flush(r, &acc.0, totals);
            n_in.fetch_add(acc.1, Ordering::Relaxed);
            n_out.fetch_add(acc.2, Ordering::Relaxed);
            n_edge_out.fetch_add(acc.3, Ordering::Relaxed);
        },
    );
    let g = |a: &AtomicU64| a.load(Ordering::Relaxed);
    r.outcome("local_boundary_instant_in_range", g(&n_in));
    r.outcome("local_boundary_civil_valid_instant_out_of_range", g(&n_out));
    r.outcome("range_edge_civil_just_outside", g(&n_edge_out));
    r.require(g(&n_in) > 10_000_000, "every offset x local-day boundary visited");
    // at least one civil datetime just outside each end for every offset but the extreme one
    r.require(g(&n_edge_out) >= 2 * (2 * OFF_MAX as u64), "a civil datetime just outside both range ends exists for every offset");
}

// ---------------------------------------------------------------------------
// fixed_zone_routes
// ---------------------------------------------------------------------------

#[derive(Default)]
struct RouteTally {
    ops: u64,
    ts_ok: u64,
    ts_err: u64,
    z_ok: u64,
    z_err: u64,
    states: u64,
}

struct Rt<'a> {
    r: &'a Report,
    section: &'static str,
    o: i32,
}

impl<'a> Rt<'a> {
    fn ts_class(&self, local: i128, exact: i128) -> String {
        input_class(local.div_euclid(DAY_NS), exact, local.rem_euclid(NS))
    }

    /// A `Timestamp` that must denote `exact`.
    fn ts_value(&self, op: &str, case: &dyn Fn() -> String, ts: Timestamp, local: i128, exact: i128) {
        let verdict = guard(|| {
            let reference = Timestamp::from_nanosecond(exact).expect("in range");
            judge_ts(ts, exact, reference)
        });
        match verdict {
            Err(p) => self.r.viol(self.section, &format!("{}->views/{}", op, panic_sig(&p)), case(), p),
            Ok(None) => {}
            Ok(Some((kind, detail))) => self.r.viol(self.section, &format!("{}/{}:{}", op, kind, self.ts_class(local, exact)), case(), detail),
        }
    }

    /// civil -> instant result: Ok(exact) iff in range.
    fn ts_result(&self, op: &str, case: &dyn Fn() -> String, got: Result<Result<Timestamp, jiff::Error>, String>, local: i128, t: &mut RouteTally) {
        let exact = local - self.o as i128 * NS;
        let inr = (MIN_NS..=MAX_NS).contains(&exact);
        t.ops += 1;
        match got {
            Err(p) => self.r.viol(self.section, &format!("{}/{}", op, panic_sig(&p)), case(), p),
            Ok(Err(e)) => {
                t.ts_err += 1;
                if inr {
                    self.r.viol(self.section, &format!("{}/rejected-in-range:{}", op, self.ts_class(local, exact)), case(), format!("jiff Err({}) model instant {} ns is within [MIN, MAX]", e, exact));
                }
            }
            Ok(Ok(ts)) => {
                t.ts_ok += 1;
                if !inr {
                    let side = if exact < MIN_NS { "instant<MIN" } else { "instant>MAX" };
                    self.r.viol(self.section, &format!("{}/accepted-out-of-range:{}", op, side), case(), format!("jiff Ok({}); model instant {} ns outside [MIN, MAX]", show_ts(ts), exact));
                } else {
                    self.ts_value(op, case, ts, local, exact);
                }
            }
        }
    }

    /// A `Zoned` that must be (exact, civil of `local`, offset o).
    fn zoned_value(&self, op: &str, case: &dyn Fn() -> String, z: &Zoned, local: i128, exact: i128) {
        let parts = guard(|| (z.timestamp(), civ_of_jiff(z.datetime()), z.offset().seconds(), Timestamp::from(z), z.time_zone().to_fixed_offset().map(|x| x.seconds()).ok()));
        match parts {
            Err(p) => self.r.viol(self.section, &format!("{}->accessors/{}", op, panic_sig(&p)), case(), p),
            Ok((ts, civ, off, ts2, tzoff)) => {
                self.ts_value(&format!("{}->timestamp", op), case, ts, local, exact);
                let want = civ_of_local(local);
                if civ != want {
                    self.r.viol(self.section, &format!("{}->datetime/civil-fields", op), case(), format!("jiff {} model {}", civ_str(&civ), civ_str(&want)));
                }
                if off != self.o {
                    self.r.viol(self.section, &format!("{}->offset/value", op), case(), format!("jiff {} model {}", off, self.o));
                }
                if ts2 != ts {
                    self.r.viol(self.section, &format!("{}->Timestamp::from(&Zoned)/value", op), case(), format!("jiff {} vs timestamp() {}", show_ts(ts2), show_ts(ts)));
                }
                if tzoff != Some(self.o) {
                    self.r.viol(self.section, &format!("{}->time_zone().to_fixed_offset/value", op), case(), format!("jiff {:?} model {}", tzoff, self.o));
                }
            }
        }
    }

    fn zoned_result(&self, op: &str, case: &dyn Fn() -> String, got: Result<Result<Zoned, jiff::Error>, String>, local: i128, t: &mut RouteTally) {
        let exact = local - self.o as i128 * NS;
        let inr = (MIN_NS..=MAX_NS).contains(&exact);
        t.ops += 1;
        match got {
            Err(p) => self.r.viol(self.section, &format!("{}/{}", op, panic_sig(&p)), case(), p),
            Ok(Err(e)) => {
                t.z_err += 1;
                if inr {
                    self.r.viol(self.section, &format!("{}/rejected-in-range:{}", op, self.ts_class(local, exact)), case(), format!("jiff Err({}) model instant {} ns is within [MIN, MAX]", e, exact));
                }
            }
            Ok(Ok(z)) => {
                t.z_ok += 1;
                if !inr {
                    let side = if exact < MIN_NS { "instant<MIN" } else { "instant>MAX" };
                    let shown = guard(|| show_ts(z.timestamp()));
                    self.r.viol(self.section, &format!("{}/accepted-out-of-range:{}", op, side), case(), format!("jiff Ok(timestamp {:?}); model instant {} ns outside [MIN, MAX]", shown, exact));
                } else {
                    self.zoned_value(op, case, &z, local, exact);
                }
            }
        }
    }
}

const DISAMB: [(Disambiguation, &str); 4] = [
    (Disambiguation::Compatible, "Compatible"),
    (Disambiguation::Earlier, "Earlier"),
    (Disambiguation::Later, "Later"),
    (Disambiguation::Reject, "Reject"),
];

pub fn fixed_zone_routes(r: &Report) {
    let section = "fixed_zone_routes";
    let (cmin, cmax) = (cmin(), cmax());
    let extra_ts: Vec<i128> = if r.thorough() {
        guard(|| vf::pools::timestamps().into_iter().map(|t| t.as_nanosecond()).collect()).unwrap_or_default()
    } else {
        vec![]
    };
    let tot: [AtomicU64; 6] = Default::default();
    for_all_offsets(
        r,
        section,
        RouteTally::default,
        |o, off, t| {
            let rt = Rt { r, section, o };
            let (tz, tz2) = match guard(|| (TimeZone::fixed(off), off.to_time_zone())) {
                Ok(x) => x,
                Err(p) => {
                    r.viol(section, &format!("TimeZone::fixed/{}", panic_sig(&p)), format!("off={}s", o), p);
                    return;
                }
            };
            t.states += 1;
            // the zone denotes this offset
            t.ops += 3;
            match guard(|| (tz.to_fixed_offset().map(|x| x.seconds()).map_err(|e| e.to_string()), tz2.to_fixed_offset().map(|x| x.seconds()).map_err(|e| e.to_string()), tz == tz2, tz.is_unknown())) {
                Err(p) => r.viol(section, &format!("TimeZone::fixed.to_fixed_offset/{}", panic_sig(&p)), format!("off={}s", o), p),
                Ok((a, b, eq, unk)) => {
                    if a != Ok(o) {
                        r.viol(section, "TimeZone::fixed.to_fixed_offset/value", format!("off={}s", o), format!("jiff {:?} model Ok({})", a, o));
                    }
                    if b != Ok(o) {
                        r.viol(section, "Offset::to_time_zone.to_fixed_offset/value", format!("off={}s", o), format!("jiff {:?} model Ok({})", b, o));
                    }
                    if !eq {
                        r.viol(section, "TimeZone::fixed==Offset::to_time_zone/value", format!("off={}s", o), "not equal");
                    }
                    if unk {
                        r.viol(section, "TimeZone::fixed.is_unknown/value", format!("off={}s", o), "true");
                    }
                }
            }
            // instants: epoch neighbourhood, local midnight at this offset (+-1 ns), both limits
            let oo = o as i128 * NS;
            let mut instants: [i128; 10] = [0, -1, 1, -oo, -oo - 1, -oo + 1, DAY_NS - oo - 1, MIN_NS, MAX_NS, -NS - 1];
            instants.sort_unstable();
            let mut prev = None;
            for &exact in instants.iter().chain(extra_ts.iter()) {
                if prev == Some(exact) {
                    continue;
                }
                prev = Some(exact);
                let local = exact + oo;
                let want = civ_of_local(local);
                let case = || format!("t={}ns off={}s", exact, o);
                let ts = match guard(|| Timestamp::from_nanosecond(exact)) {
                    Ok(Ok(ts)) => ts,
                    _ => {
                        r.viol(section, "Timestamp::from_nanosecond/rejected-in-range", case(), "in range");
                        continue;
                    }
                };
                t.states += 1;
                t.ops += 4;
                match guard(|| {
                    let info = tz.to_offset_info(ts);
                    (tz.to_offset(ts).seconds(), info.offset().seconds(), info.dst() == Dst::No, civ_of_jiff(tz.to_datetime(ts)))
                }) {
                    Err(p) => r.viol(section, &format!("TimeZone::fixed.to_offset|to_offset_info|to_datetime/{}", panic_sig(&p)), case(), p),
                    Ok((a, b, nodst, civ)) => {
                        if a != o {
                            r.viol(section, "TimeZone::fixed.to_offset/value", case(), format!("jiff {} model {}", a, o));
                        }
                        if b != o {
                            r.viol(section, "TimeZone::fixed.to_offset_info->offset/value", case(), format!("jiff {} model {}", b, o));
                        }
                        if !nodst {
                            r.viol(section, "TimeZone::fixed.to_offset_info->dst/value", case(), "jiff Dst::Yes model Dst::No");
                        }
                        if civ != want {
                            r.viol(section, "TimeZone::fixed.to_datetime/civil-fields", case(), format!("jiff {} model {}", civ_str(&civ), civ_str(&want)));
                        }
                    }
                }
                t.ops += 3;
                t.z_ok += 3;
                match guard(|| Zoned::new(ts, tz.clone())) {
                    Err(p) => r.viol(section, &format!("Zoned::new(fixed)/{}", panic_sig(&p)), case(), p),
                    Ok(z) => {
                        rt.zoned_value("Zoned::new(fixed)", &case, &z, local, exact);
                        // same instant seen from UTC and back
                        match guard(|| z.with_time_zone(TimeZone::UTC).with_time_zone(tz2.clone())) {
                            Err(p) => r.viol(section, &format!("Zoned::with_time_zone(fixed)/{}", panic_sig(&p)), case(), p),
                            Ok(z2) => rt.zoned_value("Zoned::with_time_zone(fixed)", &case, &z2, local, exact),
                        }
                    }
                }
                match guard(|| ts.to_zoned(tz2.clone())) {
                    Err(p) => r.viol(section, &format!("Timestamp::to_zoned(fixed)/{}", panic_sig(&p)), case(), p),
                    Ok(z) => rt.zoned_value("Timestamp::to_zoned(fixed)", &case, &z, local, exact),
                }
            }
            // civil datetimes: the civil reading of some of the instants above,
            // and the civil datetimes exactly at / just outside both range ends
            let civils: [i128; 12] = [
                oo,
                oo - 1,
                0,
                -1,
                DAY_NS - 1,
                MIN_NS + oo,
                MIN_NS + oo - 1,
                MIN_NS + oo - NS,
                MAX_NS + oo,
                MAX_NS + oo + 1,
                MAX_NS + oo + NS,
                -oo - 1, // civil < 1970 / instant >= 0 (or the mirror), fraction != 0
            ];
            for &local in &civils {
                if !(cmin..=cmax).contains(&local) {
                    continue;
                }
                let Some(dt) = civ_to_jiff(&civ_of_local(local)) else {
                    r.viol(section, "DateTime::new/rejected-in-range", format!("civil={}", civ_str(&civ_of_local(local))), "model: valid civil datetime");
                    continue;
                };
                t.states += 1;
                let case = || format!("civil={} off={}s", civ_str(&civ_of_local(local)), o);
                rt.ts_result("TimeZone::fixed.to_timestamp", &case, guard(|| tz.to_timestamp(dt)), local, t);
                match guard(|| tz.to_ambiguous_timestamp(dt)) {
                    Err(p) => r.viol(section, &format!("TimeZone::fixed.to_ambiguous_timestamp/{}", panic_sig(&p)), case(), p),
                    Ok(amb) => {
                        t.ops += 1;
                        match guard(|| (amb.offset(), amb.is_ambiguous(), amb.datetime() == dt)) {
                            Err(p) => r.viol(section, &format!("AmbiguousTimestamp(fixed)->accessors/{}", panic_sig(&p)), case(), p),
                            Ok((ao, isamb, same)) => {
                                let good = matches!(ao, AmbiguousOffset::Unambiguous { offset } if offset.seconds() == o);
                                if !good || isamb || !same {
                                    r.viol(section, "TimeZone::fixed.to_ambiguous_timestamp/not-unambiguous-at-the-offset", case(), format!("jiff offset() {:?} is_ambiguous {} datetime-kept {}", ao, isamb, same));
                                }
                            }
                        }
                        rt.ts_result("AmbiguousTimestamp(fixed).compatible", &case, guard(|| amb.compatible()), local, t);
                        rt.ts_result("AmbiguousTimestamp(fixed).earlier", &case, guard(|| amb.earlier()), local, t);
                        rt.ts_result("AmbiguousTimestamp(fixed).later", &case, guard(|| amb.later()), local, t);
                        rt.ts_result("AmbiguousTimestamp(fixed).unambiguous", &case, guard(|| amb.unambiguous()), local, t);
                        for (d, name) in DISAMB {
                            rt.ts_result(&format!("AmbiguousTimestamp(fixed).disambiguate({})", name), &case, guard(|| amb.disambiguate(d)), local, t);
                        }
                    }
                }
                rt.zoned_result("TimeZone::fixed.to_zoned", &case, guard(|| tz.to_zoned(dt)), local, t);
                rt.zoned_result("DateTime::to_zoned(fixed)", &case, guard(|| dt.to_zoned(tz2.clone())), local, t);
                match guard(|| (tz.to_ambiguous_zoned(dt), tz2.clone().into_ambiguous_zoned(dt))) {
                    Err(p) => r.viol(section, &format!("TimeZone::fixed.to_ambiguous_zoned/{}", panic_sig(&p)), case(), p),
                    Ok((az, az2)) => {
                        t.ops += 1;
                        match guard(|| (az.offset(), az.is_ambiguous(), az.datetime() == dt, az.time_zone().to_fixed_offset().map(|x| x.seconds()).ok())) {
                            Err(p) => r.viol(section, &format!("AmbiguousZoned(fixed)->accessors/{}", panic_sig(&p)), case(), p),
                            Ok((ao, isamb, same, tzo)) => {
                                let good = matches!(ao, AmbiguousOffset::Unambiguous { offset } if offset.seconds() == o);
                                if !good || isamb || !same || tzo != Some(o) {
                                    r.viol(section, "TimeZone::fixed.to_ambiguous_zoned/not-unambiguous-at-the-offset", case(), format!("jiff offset() {:?} is_ambiguous {} datetime-kept {} zone offset {:?}", ao, isamb, same, tzo));
                                }
                            }
                        }
                        rt.zoned_result("AmbiguousZoned(fixed).compatible", &case, guard(|| az.clone().compatible()), local, t);
                        rt.zoned_result("AmbiguousZoned(fixed).earlier", &case, guard(|| az.clone().earlier()), local, t);
                        rt.zoned_result("AmbiguousZoned(fixed).later", &case, guard(|| az.clone().later()), local, t);
                        rt.zoned_result("AmbiguousZoned(fixed).unambiguous", &case, guard(|| az.clone().unambiguous()), local, t);
                        for (d, name) in DISAMB {
                            rt.zoned_result(&format!("AmbiguousZoned(fixed).disambiguate({})", name), &case, guard(|| az.clone().disambiguate(d)), local, t);
                        }
                        rt.zoned_result("TimeZone::into_ambiguous_zoned(fixed).compatible", &case, guard(|| az2.compatible()), local, t);
                    }
                }
            }
        },
        |t| {
            r.add_states(t.states);
            r.add_transitions(t.ops);
            r.add_validated(t.ops);
            for (i, v) in [t.ops, t.ts_ok, t.ts_err, t.z_ok, t.z_err, t.states].into_iter().enumerate() {
                tot[i].fetch_add(v, Ordering::Relaxed);
            }
        },
    );
    let g = |i: usize| tot[i].load(Ordering::Relaxed);
    r.outcome("routes_ops", g(0));
    r.outcome("routes_civil_to_timestamp_ok", g(1));
    r.outcome("routes_civil_to_timestamp_err", g(2));
    r.outcome("routes_zoned_ok", g(3));
    r.outcome("routes_civil_to_zoned_err", g(4));
    r.require(g(1) > 0 && g(2) > 0 && g(3) > 0 && g(4) > 0, "fixed-zone routes both accept and reject");
    r.require(g(2) >= 9 * 2 * (2 * OFF_MAX as u64), "every offset sees out-of-range civil datetimes at both ends through the timestamp routes");
}

// ---------------------------------------------------------------------------
// offset_values
// ---------------------------------------------------------------------------

fn off_pool() -> Vec<i32> {
    let mut v = vec![0];
    for x in [1, 2, 59, 60, 61, 3_599, 3_600, 3_601, 19_800, 43_200, 46_799, 46_800, 86_399, 86_400, 86_401, 90_000, 93_598, 93_599] {
        v.push(x);
        v.push(-x);
    }
    v
}

/// The seconds a span denotes if it has only time units (None if it has a
/// non-zero calendar unit).
fn span_time_ns(s: &Span) -> Option<i128> {
    if s.get_years() != 0 || s.get_months() != 0 || s.get_weeks() != 0 || s.get_days() != 0 {
        return None;
    }
    Some(
        s.get_hours() as i128 * 3_600 * NS
            + s.get_minutes() as i128 * 60 * NS
            + s.get_seconds() as i128 * NS
            + s.get_milliseconds() as i128 * 1_000_000
            + s.get_microseconds() as i128 * 1_000
            + s.get_nanoseconds() as i128,
    )
}

#[derive(Clone, Copy, Debug)]
enum DurKind {
    Span(Span),
    Signed(SignedDuration),
    Unsigned(Duration),
}

#[derive(Clone, Debug)]
struct Dur {
    label: String,
    kind: DurKind,
    /// exact nanoseconds; `None` for a span with calendar units (documented:
    /// error / saturation)
    ns: Option<i128>,
    /// sign used by saturation when `ns` is None
    neg: bool,
}

fn dur_pool() -> Vec<Dur> {
    let mut v: Vec<Dur> = vec![];
    let secs: [i64; 27] = [
        0, 1, 2, 59, 60, 3_599, 3_600, 86_399, 86_400, 93_598, 93_599, 93_600, 93_601, 100_000, 187_197, 187_198, 187_199, 187_200, 200_000,
        (1 << 31) - 1, 1 << 31, (1 << 31) + 1, (1 << 32) - 1, 1 << 32, (1 << 32) + 1, (1 << 32) + 3_600, 631_107_417_600,
    ];
    let nanos: [i32; 5] = [0, 1, 499_999_999, 500_000_000, 999_999_999];
    for &s in &secs {
        for &n in &nanos {
            for sign in [1i64, -1] {
                if sign < 0 && s == 0 && n == 0 {
                    continue;
                }
                let ns = sign as i128 * (s as i128 * NS + n as i128);
                let sd = SignedDuration::new(sign * s, sign as i32 * n);
                v.push(Dur { label: format!("SignedDuration({}s {}ns)", sign * s, sign as i32 * n), kind: DurKind::Signed(sd), ns: Some(ns), neg: ns < 0 });
                if sign > 0 {
                    v.push(Dur { label: format!("Duration({}s {}ns)", s, n), kind: DurKind::Unsigned(Duration::new(s as u64, n as u32)), ns: Some(ns), neg: false });
                }
                // span of seconds + nanoseconds
                if let Ok(sp) = Span::new().try_seconds(sign * s).and_then(|x| x.try_nanoseconds(sign * n as i64)) {
                    v.push(Dur { label: format!("Span({}s {}ns)", sign * s, sign * n as i64), kind: DurKind::Span(sp), ns: Some(ns), neg: ns < 0 });
                }
            }
        }
    }
    // spans in mixed units
    let mixed: [(i32, i64, i64, i64, i64, i64); 12] = [
        (25, 59, 59, 0, 0, 0),
        (26, 0, 0, 0, 0, 0),
        (1, 0, 0, 0, 0, 0),
        (0, 90, 0, 0, 0, 0),
        (0, 0, 0, 900, 50_000, 50_000_000),
        (0, 0, 0, 901, 50_001, 50_000_001),
        (0, 0, 0, 999, 999, 999),
        (0, 0, 0, 1_000, 0, 0),
        (0, 0, 0, 0, 1_000_000, 0),
        (0, 0, 0, 0, 0, 1_999_999_999),
        (51, 59, 58, 0, 0, 0),
        (24, 0, 0, 0, 0, 0),
    ];
    for &(h, mi, s, ms, us, n) in &mixed {
        for sign in [1i64, -1] {
            let sp = Span::new().hours(sign * h as i64).minutes(sign * mi).seconds(sign * s).milliseconds(sign * ms).microseconds(sign * us).nanoseconds(sign * n);
            let ns = span_time_ns(&sp).expect("time units only");
            v.push(Dur { label: format!("Span({}h {}m {}s {}ms {}us {}ns)", sign * h as i64, sign * mi, sign * s, sign * ms, sign * us, sign * n), kind: DurKind::Span(sp), ns: Some(ns), neg: ns < 0 });
        }
    }
    // calendar units: documented error / saturation by sign
    for sign in [1i64, -1] {
        for (name, sp) in [
            ("days", Span::new().days(sign)),
            ("weeks", Span::new().weeks(sign)),
            ("months", Span::new().months(sign)),
            ("years", Span::new().years(sign)),
            ("days+hours", Span::new().days(sign).hours(sign)),
        ] {
            v.push(Dur { label: format!("Span({} {})", sign, name), kind: DurKind::Span(sp), ns: None, neg: sign < 0 });
        }
    }
    // the extremes of the absolute duration types
    for (label, sd) in [("SignedDuration::MIN", SignedDuration::MIN), ("SignedDuration::MAX", SignedDuration::MAX)] {
        v.push(Dur { label: label.into(), kind: DurKind::Signed(sd), ns: Some(sd.as_nanos()), neg: sd.is_negative() });
    }
    for (label, d) in [
        ("Duration::MAX", Duration::MAX),
        ("Duration(2^63 s)", Duration::new(1 << 63, 0)),
        ("Duration(2^63-1 s 999999999ns)", Duration::new((1 << 63) - 1, 999_999_999)),
    ] {
        v.push(Dur { label: label.into(), kind: DurKind::Unsigned(d), ns: Some(d.as_nanos() as i128), neg: false });
    }
    v
}

fn in_off(x: i128) -> bool {
    (-(OFF_MAX as i128)..=OFF_MAX as i128).contains(&x)
}

/// Input-derived class of an arithmetic case.
fn arith_class(t: i128, sum: i128) -> &'static str {
    if !in_off(sum) {
        "sum-out-of-range"
    } else if !in_off(t) {
        "sum-in-range,|duration|>25:59:59"
    } else {
        "sum-in-range"
    }
}

fn kind_name(k: &DurKind) -> &'static str {
    match k {
        DurKind::Span(_) => "Span",
        DurKind::Signed(_) => "SignedDuration",
        DurKind::Unsigned(_) => "Duration",
    }
}

macro_rules! with_kind {
    ($k:expr, |$v:ident| $e:expr) => {
        match $k {
            DurKind::Span($v) => $e,
            DurKind::Signed($v) => $e,
            DurKind::Unsigned($v) => $e,
        }
    };
}

fn check_arith(r: &Report, section: &str, o: i32, off: Offset, d: &Dur, ops: bool, n: &mut (u64, u64, u64)) {
    let kn = kind_name(&d.kind);
    let case = || format!("off={}s dur={}", o, d.label);
    for (sub, name) in [(false, "add"), (true, "sub")] {
        // model
        let (want, class, sat): (Option<i32>, &'static str, i32) = match d.ns {
            None => (None, "calendar-units", if d.neg != sub { -OFF_MAX } else { OFF_MAX }),
            Some(ns) => {
                let t = ns / NS; // fractional seconds are ignored
                let t = if sub { -t } else { t };
                let sum = o as i128 + t;
                let sat = if sum < 0 { -OFF_MAX } else { OFF_MAX };
                if in_off(sum) {
                    (Some(sum as i32), arith_class(t, sum), sum as i32)
                } else {
                    (None, arith_class(t, sum), sat)
                }
            }
        };
        // Offset arithmetic is not part of C02's statement; it is checked here only
        // where the expected answer follows from the offset range alone. jiff
        // range-checks the addend by itself as an offset-sized quantity
        // (src/tz/offset.rs checked_add_span / checked_add_duration), so an addend
        // beyond 25:59:59 is refused even when the sum would be a valid offset
        // (Offset(-1 s) + 26 h). That contradicts the wording of the method docs
        // ("if the result would exceed...") but no listed property: such inputs
        // only have to return without a panic in the checked/saturating forms.
        if class == "sum-in-range,|duration|>25:59:59" {
            r.count("offset_arith_addend_not_offset_sized(outside C02: no-panic only)", 1);
            for got in [
                guard(|| with_kind!(d.kind, |v| if sub { off.checked_sub(v) } else { off.checked_add(v) }).map(|x| x.seconds()).unwrap_or(0)),
                guard(|| with_kind!(d.kind, |v| if sub { off.saturating_sub(v) } else { off.saturating_add(v) }).seconds()),
            ] {
                if let Err(p) = got {
                    r.viol(section, &format!("Offset::checked/saturating_{}({})/{}", name, kn, panic_sig(&p)), case(), p);
                }
            }
            continue;
        }
        n.0 += 2;
        let got = guard(|| with_kind!(d.kind, |v| if sub { off.checked_sub(v) } else { off.checked_add(v) }).map(|x| x.seconds()).map_err(|e| e.to_string()));
        match (&got, want) {
            (Err(p), _) => r.viol(section, &format!("Offset::checked_{}({})/{}", name, kn, panic_sig(p)), case(), p.clone()),
            (Ok(Ok(g)), Some(w)) => {
                n.1 += 1;
                if *g != w {
                    r.viol(section, &format!("Offset::checked_{}({})/value:{}", name, kn, class), case(), format!("jiff Ok({}) model Ok({})", g, w));
                }
            }
            (Ok(Ok(g)), None) => r.viol(section, &format!("Offset::checked_{}({})/accepted:{}", name, kn, class), case(), format!("jiff Ok({}) model: error", g)),
            (Ok(Err(e)), Some(w)) => r.viol(section, &format!("Offset::checked_{}({})/rejected:{}", name, kn, class), case(), format!("jiff Err({}) model Ok({})", e, w)),
            (Ok(Err(_)), None) => n.2 += 1,
        }
        let got = guard(|| with_kind!(d.kind, |v| if sub { off.saturating_sub(v) } else { off.saturating_add(v) }).seconds());
        match got {
            Err(p) => r.viol(section, &format!("Offset::saturating_{}({})/{}", name, kn, panic_sig(&p)), case(), p),
            Ok(g) => {
                if g != sat {
                    r.viol(section, &format!("Offset::saturating_{}({})/value:{}", name, kn, class), case(), format!("jiff {} model {}", g, sat));
                }
            }
        }
        if ops {
            // operators: panic exactly when the checked form is an error
            n.0 += 2;
            let got = guard(|| with_kind!(d.kind, |v| if sub { off - v } else { off + v }).seconds());
            let got2 = guard(|| {
                let mut x = off;
                with_kind!(d.kind, |v| if sub { x -= v } else { x += v });
                x.seconds()
            });
            for (g, opname) in [(got, if sub { "Sub" } else { "Add" }), (got2, if sub { "SubAssign" } else { "AddAssign" })] {
                match (g, want) {
                    (Ok(g), Some(w)) if g == w => {}
                    (Err(_), None) => {}
                    (Ok(g), Some(w)) => r.viol(section, &format!("Offset::{}<{}>/value:{}", opname, kn, class), case(), format!("jiff {} model {}", g, w)),
                    (Ok(g), None) => r.viol(section, &format!("Offset::{}<{}>/no-panic:{}", opname, kn, class), case(), format!("jiff {} model: documented to panic on overflow", g)),
                    (Err(p), Some(w)) => r.viol(section, &format!("Offset::{}<{}>/panics:{}", opname, kn, class), case(), format!("jiff panics ({}) model {}", p, w)),
                }
            }
        }
    }
}

pub fn offset_values(r: &Report) {
    let section = "offset_values";
    // constants
    r.add_validated(5);
    match guard(|| (Offset::UTC.seconds(), Offset::ZERO.seconds(), Offset::MIN.seconds(), Offset::MAX.seconds(), Offset::UTC == Offset::ZERO)) {
        Err(p) => r.viol(section, &format!("Offset::constants/{}", panic_sig(&p)), "constants", p),
        Ok(got) => {
            if got != (0, 0, -OFF_MAX, OFF_MAX, true) {
                r.viol(section, "Offset::constants/value", "constants", format!("jiff (UTC, ZERO, MIN, MAX, UTC==ZERO) = {:?}", got));
            }
        }
    }
    // hours constructors over all of i8
    let (mut h_ok, mut h_err) = (0u64, 0u64);
    for hh in i8::MIN..=i8::MAX {
        let want = if (-25..=25).contains(&hh) { Some(hh as i32 * 3_600) } else { None };
        let case = format!("hours={}", hh);
        r.add_states(1);
        r.add_transitions(3);
        r.add_validated(3);
        match (guard(|| Offset::from_hours(hh).map(|x| x.seconds()).map_err(|e| e.to_string())), want) {
            (Err(p), _) => r.viol(section, &format!("Offset::from_hours/{}", panic_sig(&p)), case.clone(), p),
            (Ok(Ok(g)), Some(w)) => {
                h_ok += 1;
                if g != w {
                    r.viol(section, "Offset::from_hours/value", case.clone(), format!("jiff {} model {}", g, w));
                }
            }
            (Ok(Ok(g)), None) => r.viol(section, "Offset::from_hours/accepted-out-of-range", case.clone(), format!("jiff Ok({})", g)),
            (Ok(Err(e)), Some(w)) => r.viol(section, "Offset::from_hours/rejected-in-range", case.clone(), format!("jiff Err({}) model {}", e, w)),
            (Ok(Err(_)), None) => h_err += 1,
        }
        for (name, got) in [("Offset::constant", guard(|| Offset::constant(hh).seconds())), ("tz::offset", guard(|| jiff::tz::offset(hh).seconds()))] {
            match (got, want) {
                (Ok(g), Some(w)) if g == w => {}
                (Err(_), None) => {}
                (Ok(g), Some(w)) => r.viol(section, &format!("{}/value", name), case.clone(), format!("jiff {} model {}", g, w)),
                (Ok(g), None) => r.viol(section, &format!("{}/no-panic:hours-out-of-range", name), case.clone(), format!("jiff {} ; documented to panic outside -25..=25", g)),
                (Err(p), Some(w)) => r.viol(section, &format!("{}/panics-in-range", name), case.clone(), format!("jiff panics ({}) model {}", p, w)),
            }
        }
    }
    r.outcome("offset_from_hours_ok", h_ok);
    r.outcome("offset_from_hours_err", h_err);
    r.require(h_ok == 51 && h_err == 205, "from_hours accepts exactly -25..=25");

    // TryFrom<SignedDuration>: documented to round to the nearest second
    // (the example rounds -5h -0.5s away from zero); error when out of range
    {
        let (mut ok, mut err) = (0u64, 0u64);
        let secs: [i64; 17] = [0, 1, -1, 3_600, -3_600, 93_598, -93_598, 93_599, -93_599, 93_600, -93_600, 1 << 31, -(1 << 31), 1 << 32, -(1 << 32), i64::MAX, i64::MIN];
        let nanos: [i32; 9] = [0, 1, -1, 499_999_999, -499_999_999, 500_000_000, -500_000_000, 999_999_999, -999_999_999];
        for &s in &secs {
            for &n in &nanos {
                if (s > 0 && n < 0) || (s < 0 && n > 0) {
                    continue;
                }
                let exact = s as i128 * NS + n as i128;
                // nearest second, ties away from zero
                let q = exact / NS;
                let rem = (exact % NS).abs();
                let rounded = if rem >= 500_000_000 { q + exact.signum() } else { q };
                let want = if in_off(rounded) { Some(rounded as i32) } else { None };
                let case = format!("SignedDuration({}s {}ns)", s, n);
                r.add_states(1);
                r.add_transitions(1);
                r.add_validated(1);
                let got = guard(|| {
                    let d = SignedDuration::new(s, n);
                    assert_eq!(d.as_nanos(), exact);
                    Offset::try_from(d).map(|x| x.seconds()).map_err(|e| e.to_string())
                });
                let tie = if rem == 500_000_000 { "tie" } else { "no-tie" };
                match (got, want) {
                    (Err(p), _) => r.viol(section, &format!("Offset::try_from(SignedDuration)/{}", panic_sig(&p)), case, p),
                    (Ok(Ok(g)), Some(w)) => {
                        ok += 1;
                        if g != w {
                            r.viol(section, &format!("Offset::try_from(SignedDuration)/value:{}", tie), case, format!("jiff {} model {}", g, w));
                        }
                    }
                    (Ok(Ok(g)), None) => r.viol(section, "Offset::try_from(SignedDuration)/accepted-out-of-range", case, format!("jiff Ok({})", g)),
                    (Ok(Err(e)), Some(w)) => r.viol(section, &format!("Offset::try_from(SignedDuration)/rejected-in-range:{}", tie), case, format!("jiff Err({}) model {}", e, w)),
                    (Ok(Err(_)), None) => err += 1,
                }
            }
        }
        r.outcome("offset_try_from_duration_ok", ok);
        r.outcome("offset_try_from_duration_err", err);
        r.require(ok > 0 && err > 0, "Offset::try_from(SignedDuration) both accepts and rejects");
    }

    // every offset: accessors, negation, order, differences against a partner pool
    let partners = off_pool();
    let durs = dur_pool();
    let pool = off_pool();
    r.count("offset_values_duration_pool", durs.len() as u64);
    let all_arith = r.thorough();
    // for the sweep over all offsets: the durations whose whole seconds lie in
    // the interesting band (up to twice the offset range) with the two extreme
    // fractions; the full pool runs on the boundary pool of offsets below
    let durs_all: Vec<Dur> = durs
        .iter()
        .filter(|d| match d.ns {
            None => false,
            Some(ns) => (ns / NS).abs() <= 187_200 && [0, 999_999_999].contains(&(ns % NS).abs()) && !d.label.contains('h'),
        })
        .cloned()
        .collect();
    r.count("offset_values_duration_pool_all_offsets", durs_all.len() as u64);
    let tot: [AtomicU64; 4] = Default::default();
    for_all_offsets(
        r,
        section,
        || (0u64, (0u64, 0u64, 0u64)),
        |o, off, acc| {
            let case = || format!("off={}s", o);
            acc.0 += 9;
            match guard(|| {
                (
                    off.seconds(),
                    off.negate().seconds(),
                    (-off).seconds(),
                    off.signum() as i32,
                    off.is_positive(),
                    off.is_negative(),
                    off.is_zero(),
                    off.to_time_zone().to_fixed_offset().map(|x| x.seconds()).ok(),
                )
            }) {
                Err(p) => r.viol(section, &format!("Offset::accessors/{}", panic_sig(&p)), case(), p),
                Ok(got) => {
                    let want = (o, -o, -o, o.signum(), o > 0, o < 0, o == 0, Some(o));
                    if got != want {
                        let what = if got.0 != want.0 {
                            "Offset::seconds/value"
                        } else if got.1 != want.1 || got.2 != want.2 {
                            "Offset::negate/value"
                        } else if got.7 != want.7 {
                            "Offset::to_time_zone.to_fixed_offset/value"
                        } else {
                            "Offset::signum|is_positive|is_negative|is_zero/value"
                        };
                        r.viol(section, what, case(), format!("jiff (seconds, negate, neg, signum, is_positive, is_negative, is_zero, zone offset) = {:?} model {:?}", got, want));
                    }
                }
            }
            for &b in &partners {
                let case = || format!("a={}s b={}s", o, b);
                acc.0 += 8;
                let res = guard(|| {
                    let ob = Offset::from_seconds(b).expect("pool offset");
                    let until = off.until(ob);
                    let since = off.since(ob);
                    let minus = off - ob;
                    (
                        off.cmp(&ob),
                        off == ob,
                        h(&off) == h(&ob),
                        span_time_ns(&until),
                        span_time_ns(&since),
                        span_time_ns(&minus),
                        off.duration_until(ob).as_nanos(),
                        off.duration_since(ob).as_nanos(),
                        off.checked_add(until).map(|x| x.seconds()).map_err(|e| e.to_string()),
                    )
                });
                match res {
                    Err(p) => r.viol(section, &format!("Offset::until|since|cmp/{}", panic_sig(&p)), case(), p),
                    Ok((c, eq, heq, until, since, minus, du, ds, back)) => {
                        let diff = (b as i128 - o as i128) * NS;
                        if c != o.cmp(&b) || eq != (o == b) || (o == b && !heq) {
                            r.viol(section, "Offset::cmp|eq|hash/value", case(), format!("jiff cmp {:?} eq {} hash-equal {}", c, eq, heq));
                        }
                        if until != Some(diff) {
                            r.viol(section, "Offset::until/value", case(), format!("jiff {:?} ns model {} ns", until, diff));
                        }
                        if since != Some(-diff) {
                            r.viol(section, "Offset::since/value", case(), format!("jiff {:?} ns model {} ns", since, -diff));
                        }
                        if minus != Some(-diff) {
                            r.viol(section, "Offset::Sub<Offset>/value", case(), format!("jiff {:?} ns model {} ns", minus, -diff));
                        }
                        if du != diff {
                            r.viol(section, "Offset::duration_until/value", case(), format!("jiff {} ns model {} ns", du, diff));
                        }
                        if ds != -diff {
                            r.viol(section, "Offset::duration_since/value", case(), format!("jiff {} ns model {} ns", ds, -diff));
                        }
                        // documented property of `until`: adding the span returned to
                        // this offset always equals the other offset
                        if back != Ok(b) && !in_off((b - o) as i128) {
                            // same cause as above (the span is not offset-sized): counted, not reported
                            r.count("offset_until_then_add_difference_not_offset_sized(outside C02)", 1);
                        } else if back != Ok(b) {
                            let class = "|difference|<=25:59:59";
                            r.viol(section, &format!("Offset::checked_add(Offset::until)/not-the-other-offset:{}", class), case(), format!("jiff {:?} model Ok({})", back, b));
                        }
                    }
                }
            }
            if all_arith {
                for d in &durs_all {
                    check_arith(r, section, o, off, d, false, &mut acc.1);
                }
            }
        },
        |acc| {
            r.add_transitions(acc.0 + acc.1 .0);
            r.add_validated(acc.0 + acc.1 .0);
            tot[0].fetch_add(acc.0, Ordering::Relaxed);
            tot[1].fetch_add(acc.1 .0, Ordering::Relaxed);
            tot[2].fetch_add(acc.1 .1, Ordering::Relaxed);
            tot[3].fetch_add(acc.1 .2, Ordering::Relaxed);
        },
    );
    // arithmetic (and the panicking operators) on the boundary pool of offsets
    let mut n = (0u64, 0u64, 0u64);
    for &o in &pool {
        let Ok(Ok(off)) = guard(|| Offset::from_seconds(o)) else { continue };
        r.add_states(1);
        for d in &durs {
            check_arith(r, section, o, off, d, true, &mut n);
        }
    }
    r.add_transitions(n.0);
    r.add_validated(n.0);
    let g = |i: usize| tot[i].load(Ordering::Relaxed);
    r.outcome("offset_value_checks", g(0));
    r.outcome("offset_arith_ops", g(1) + n.0);
    r.outcome("offset_arith_ok", g(2) + n.1);
    r.outcome("offset_arith_err", g(3) + n.2);
    r.require(n.1 > 0 && n.2 > 0, "offset arithmetic both succeeds and overflows");
}

// ---------------------------------------------------------------------------
// views_sweep / ctor_dense / system_time / ordering
// ---------------------------------------------------------------------------

fn sweep_nanos() -> Vec<i128> {
    let mut v = vec![0i128];
    for x in [1i128, 2, 999, 1_000, 1_001, 999_999, 1_000_000, 1_000_001, 1_999_999, 499_999_999, 500_000_000, 500_000_001, 999_000_000, 999_999_000, 999_999_998, 999_999_999] {
        v.push(x);
        v.push(-x);
    }
    v
}

/// Every second of some dense ranges and a ladder of magnitudes, times the
/// nanosecond pool (sign-compatible): all views, `new` with the same-sign and
/// the two mixed-sign spellings of the same instant.
pub fn views_sweep(r: &Report) {
    let section = "views_sweep";
    let half: i64 = if r.quick() { 20_000 } else { 200_000 };
    let edge: i64 = if r.quick() { 2_000 } else { 100_000 };
    let mut secs: Vec<i64> = vec![];
    secs.extend(-half..=half);
    secs.extend(MIN_S..=MIN_S + edge);
    secs.extend(MAX_S - edge..=MAX_S);
    for k in 15..38u32 {
        for d in [-1i64, 0, 1] {
            let x = (1i64 << k) + d;
            secs.push(x);
            secs.push(-x);
        }
    }
    let mut p = 100_000i64;
    while p < MAX_S {
        for d in [-1i64, 0, 1] {
            secs.push(p + d);
            secs.push(-p - d);
        }
        p *= 10;
    }
    secs.retain(|s| (MIN_S..=MAX_S).contains(s));
    secs.sort_unstable();
    secs.dedup();
    let nanos = sweep_nanos();
    r.count("views_sweep_seconds", secs.len() as u64);
    let n_vals = AtomicU64::new(0);
    let n_mixed = AtomicU64::new(0);
    secs.par_chunks(4096).for_each(|chunk| {
        let (mut vals, mut mixed) = (0u64, 0u64);
        for &s in chunk {
            for &n in &nanos {
                // (s, n) as same-sign components of an instant
                if (s > 0 && n < 0) || (s < 0 && n > 0) {
                    continue;
                }
                let exact = s as i128 * NS + n;
                if !(MIN_NS..=MAX_NS).contains(&exact) {
                    continue;
                }
                vals += 1;
                let case = format!("second={} nanosecond={}", s, n);
                match guard(|| Timestamp::from_nanosecond(exact)) {
                    Ok(Ok(ts)) => check_views(r, section, "Timestamp::from_nanosecond", &case, ts, exact),
                    Ok(Err(e)) => r.viol(section, "Timestamp::from_nanosecond/rejected-in-range", case.clone(), e.to_string()),
                    Err(p) => r.viol(section, &format!("Timestamp::from_nanosecond/{}", panic_sig(&p)), case.clone(), p),
                }
                match guard(|| Timestamp::new(s, n as i32)) {
                    Ok(Ok(ts)) => check_repr(r, section, "Timestamp::new", &case, ts, exact),
                    Ok(Err(e)) => r.viol(section, "Timestamp::new/rejected-in-range", case.clone(), e.to_string()),
                    Err(p) => r.viol(section, &format!("Timestamp::new/{}", panic_sig(&p)), case.clone(), p),
                }
                // the mixed-sign spelling of the same instant: (s+1, n-1e9) or (s-1, n+1e9)
                if n != 0 {
                    let (s2, n2) = if n > 0 { (s + 1, n - NS) } else { (s - 1, n + NS) };
                    if (MIN_S..=MAX_S).contains(&s2) && s2 != 0 {
                        mixed += 1;
                        let case = format!("second={} nanosecond={}", s2, n2);
                        match guard(|| Timestamp::new(s2, n2 as i32)) {
                            Ok(Ok(ts)) => check_repr(r, section, "Timestamp::new", &case, ts, exact),
                            Ok(Err(e)) => r.viol(section, "Timestamp::new/rejected-in-range", case.clone(), e.to_string()),
                            Err(p) => r.viol(section, &format!("Timestamp::new/{}", panic_sig(&p)), case.clone(), p),
                        }
                        match guard(|| Timestamp::constant(s2, n2 as i32)) {
                            Ok(ts) => check_repr(r, section, "Timestamp::constant", &case, ts, exact),
                            Err(p) => r.viol(section, &format!("Timestamp::constant/panics-in-range:{}", panic_sig(&p)), case.clone(), p),
                        }
                    }
                }
                // unit constructors of the truncated views reproduce the truncated instant
                let ms = exact / 1_000_000;
                match guard(|| Timestamp::from_millisecond(ms as i64)) {
                    Ok(Ok(ts)) => check_repr(r, section, "Timestamp::from_millisecond", &case, ts, ms * 1_000_000),
                    Ok(Err(e)) => r.viol(section, "Timestamp::from_millisecond/rejected-in-range", format!("millisecond={}", ms), e.to_string()),
                    Err(p) => r.viol(section, &format!("Timestamp::from_millisecond/{}", panic_sig(&p)), format!("millisecond={}", ms), p),
                }
                let us = exact / 1_000;
                match guard(|| Timestamp::from_microsecond(us as i64)) {
                    Ok(Ok(ts)) => check_repr(r, section, "Timestamp::from_microsecond", &case, ts, us * 1_000),
                    Ok(Err(e)) => r.viol(section, "Timestamp::from_microsecond/rejected-in-range", format!("microsecond={}", us), e.to_string()),
                    Err(p) => r.viol(section, &format!("Timestamp::from_microsecond/{}", panic_sig(&p)), format!("microsecond={}", us), p),
                }
            }
        }
        r.add_states(vals);
        r.add_transitions(vals * 4 + mixed * 2);
        r.add_validated(vals * (14 + 3) + mixed * 2);
        n_vals.fetch_add(vals, Ordering::Relaxed);
        n_mixed.fetch_add(mixed, Ordering::Relaxed);
    });
    // Ladders in every view unit: the count of nanoseconds, microseconds,
    // milliseconds and seconds since the epoch on both sides of every power of
    // two and of ten (a view or constructor computed in a narrower integer
    // than i128 breaks where *its own* unit count, not the second, crosses such
    // a threshold: 2^63 ns is an instant in 2262), with sub-unit remainders.
    let mut ladder: Vec<i128> = vec![];
    for unit in [1i128, 1_000, 1_000_000, NS] {
        let mut counts: Vec<i128> = vec![];
        for k in 20..100u32 {
            counts.push(1i128 << k);
        }
        let mut p10 = 1_000_000i128;
        for _ in 0..24 {
            counts.push(p10);
            p10 = p10.saturating_mul(10);
        }
        for c in counts {
            for d in [-1i128, 0, 1] {
                for rem in [0i128, 1, unit / 2, unit - 1] {
                    if rem >= unit {
                        continue;
                    }
                    // (counts far beyond the range overflow even i128: skipped)
                    let Some(x) = (c + d).checked_mul(unit).and_then(|x| x.checked_add(rem)) else { continue };
                    ladder.push(x);
                    ladder.push(-x);
                }
            }
        }
    }
    ladder.retain(|x| (MIN_NS..=MAX_NS).contains(x));
    ladder.sort_unstable();
    ladder.dedup();
    r.count("views_sweep_unit_ladder_values", ladder.len() as u64);
    for &exact in &ladder {
        let case = format!("nanosecond-count={}", exact);
        match guard(|| Timestamp::from_nanosecond(exact)) {
            Ok(Ok(ts)) => check_views(r, section, "Timestamp::from_nanosecond", &case, ts, exact),
            Ok(Err(e)) => r.viol(section, "Timestamp::from_nanosecond/rejected-in-range", case.clone(), e.to_string()),
            Err(p) => r.viol(section, &format!("Timestamp::from_nanosecond/{}", panic_sig(&p)), case.clone(), p),
        }
    }
    r.add_states(ladder.len() as u64);
    r.add_transitions(ladder.len() as u64);
    r.add_validated(ladder.len() as u64 * 15);
    r.require(ladder.len() > 1_000, "the unit ladders are populated");
    r.outcome("views_sweep_values", n_vals.load(Ordering::Relaxed));
    r.outcome("views_sweep_mixed_sign_spellings", n_mixed.load(Ordering::Relaxed));
    r.require(n_vals.load(Ordering::Relaxed) > 100_000 && n_mixed.load(Ordering::Relaxed) > 100_000, "views sweep visited values and mixed-sign spellings");
}

/// Representation only (cheap): the value is the canonical one for `exact`.
fn check_repr(r: &Report, section: &str, ctor: &str, case: &str, ts: Timestamp, exact: i128) {
    let verdict = guard(|| {
        let reference = Timestamp::from_nanosecond(exact).expect("in range");
        judge_ts(ts, exact, reference)
    });
    match verdict {
        Err(p) => r.viol(section, &format!("{}->views/{}", ctor, panic_sig(&p)), case, p),
        Ok(None) => {}
        Ok(Some((kind, detail))) => r.viol(section, &format!("{}->{}/value", ctor, kind), case, detail),
    }
}

/// Every millisecond / microsecond within a window of zero, of +-1 s and of
/// both limits.
pub fn ctor_dense(r: &Report) {
    let section = "ctor_dense";
    let w: i128 = 2_500;
    let (mut ok, mut err) = (0u64, 0u64);
    for (name, per_sec) in [("millisecond", 1_000i128), ("microsecond", 1_000_000)] {
        let scale = NS / per_sec;
        let min_u = MIN_NS / scale;
        let max_u = MAX_NS / scale;
        let mut centres = vec![0, per_sec, -per_sec, min_u, max_u, min_u + per_sec, max_u - per_sec];
        centres.dedup();
        for c in centres {
            for x in c - w..=c + w {
                let Ok(v) = i64::try_from(x) else { continue };
                let want = in_range(x * scale);
                let case = format!("{}={}", name, v);
                let ctor = format!("Timestamp::from_{}", name);
                r.add_states(1);
                r.add_transitions(1);
                r.add_validated(1);
                let got = guard(|| if per_sec == 1_000 { Timestamp::from_millisecond(v) } else { Timestamp::from_microsecond(v) }.map_err(|e| e.to_string()));
                match (got, want) {
                    (Err(p), _) => r.viol(section, &format!("{}/{}", ctor, panic_sig(&p)), case, p),
                    (Ok(Ok(ts)), Some(e)) => {
                        ok += 1;
                        check_views(r, section, &ctor, &case, ts, e);
                    }
                    (Ok(Ok(ts)), None) => r.viol(section, &format!("{}/accepted-out-of-range", ctor), case, format!("jiff Ok({})", show_ts(ts))),
                    (Ok(Err(e)), Some(x)) => r.viol(section, &format!("{}/rejected-in-range", ctor), case, format!("jiff Err({}) model {} ns", e, x)),
                    (Ok(Err(_)), None) => err += 1,
                }
            }
        }
    }
    r.outcome("ctor_dense_ok", ok);
    r.outcome("ctor_dense_err", err);
    r.require(ok > 0 && err >= 4 * 2_400, "dense constructor windows straddle both limits");
}

fn value_pool() -> Vec<i128> {
    let mut v: Vec<i128> = guard(|| vf::pools::timestamps().into_iter().map(|t| t.as_nanosecond()).collect()).unwrap_or_default();
    for base in [0i128, MIN_NS, MAX_NS, -NS, NS, -86_400 * NS, 86_400 * NS, (1i128 << 31) * NS, -(1i128 << 31) * NS, (1i128 << 32) * NS, -(1i128 << 32) * NS] {
        for d in [0i128, 1, 2, 999_999, 1_000_000, 499_999_999, 500_000_000, 999_999_999, NS, NS + 1] {
            for x in [base + d, base - d] {
                if (MIN_NS..=MAX_NS).contains(&x) && !v.contains(&x) {
                    v.push(x);
                }
            }
        }
    }
    v
}

pub fn system_time(r: &Report) {
    let section = "system_time";
    let pool = value_pool();
    let (mut ok, mut err, mut pre) = (0u64, 0u64, 0u64);
    // the SystemTime at `exact` ns from the epoch, built with std only
    let st_of = |exact: i128| -> Option<SystemTime> {
        let mag = exact.unsigned_abs();
        let d = Duration::new(u64::try_from(mag / NS as u128).ok()?, (mag % NS as u128) as u32);
        if exact < 0 {
            SystemTime::UNIX_EPOCH.checked_sub(d)
        } else {
            SystemTime::UNIX_EPOCH.checked_add(d)
        }
    };
    let ns_of = |st: SystemTime| -> i128 {
        match st.duration_since(SystemTime::UNIX_EPOCH) {
            Ok(d) => d.as_nanos() as i128,
            Err(e) => -(e.duration().as_nanos() as i128),
        }
    };
    for &exact in &pool {
        let case = format!("t={}ns", exact);
        r.add_states(1);
        r.add_transitions(2);
        r.add_validated(2);
        if exact < 0 {
            pre += 1;
        }
        // Timestamp -> SystemTime
        match guard(|| SystemTime::from(Timestamp::from_nanosecond(exact).expect("in range"))) {
            Err(p) => r.viol(section, &format!("SystemTime::from(Timestamp)/{}", panic_sig(&p)), case.clone(), p),
            Ok(st) => {
                if ns_of(st) != exact {
                    r.viol(section, &format!("SystemTime::from(Timestamp)/value:instant{}0", if exact < 0 { "<" } else { ">=" }), case.clone(), format!("jiff {} ns from the epoch, model {}", ns_of(st), exact));
                }
            }
        }
        // SystemTime -> Timestamp
        if let Some(st) = st_of(exact) {
            match guard(|| Timestamp::try_from(st).map_err(|e| e.to_string())) {
                Err(p) => r.viol(section, &format!("Timestamp::try_from(SystemTime)/{}", panic_sig(&p)), case.clone(), p),
                Ok(Err(e)) => r.viol(section, "Timestamp::try_from(SystemTime)/rejected-in-range", case.clone(), e),
                Ok(Ok(ts)) => {
                    ok += 1;
                    check_views(r, section, "Timestamp::try_from(SystemTime)", &case, ts, exact);
                }
            }
        }
    }
    // out of range on both sides
    let mut outs: Vec<i128> = vec![MIN_NS - 1, MIN_NS - NS, MIN_NS - NS - 1, MAX_NS + 1, MAX_NS + NS, 2 * MAX_NS, 2 * MIN_NS, (1i128 << 62) * NS, -(1i128 << 62) * NS];
    outs.push(i64::MAX as i128 * NS);
    outs.push(i64::MIN as i128 * NS);
    for exact in outs {
        let Some(st) = st_of(exact) else { continue };
        let case = format!("t={}ns", exact);
        r.add_states(1);
        r.add_transitions(1);
        r.add_validated(1);
        match guard(|| Timestamp::try_from(st).map_err(|e| e.to_string())) {
            Err(p) => r.viol(section, &format!("Timestamp::try_from(SystemTime)/{}", panic_sig(&p)), case, p),
            Ok(Err(_)) => err += 1,
            Ok(Ok(ts)) => r.viol(section, &format!("Timestamp::try_from(SystemTime)/accepted-out-of-range:{}", if exact < 0 { "instant<MIN" } else { "instant>MAX" }), case, format!("jiff Ok({})", show_ts(ts))),
        }
    }
    r.outcome("system_time_ok", ok);
    r.outcome("system_time_err", err);
    r.outcome("system_time_before_1970", pre);
    r.require(ok > 0 && err >= 6 && pre > 0, "SystemTime conversions accept, reject and see pre-1970 values");
}

/// The order, equality and hash of timestamps are those of the integers.
pub fn ordering(r: &Report) {
    let section = "ordering";
    let mut pool = value_pool();
    pool.sort_unstable();
    let tss: Vec<(i128, Timestamp)> = pool.iter().filter_map(|&x| guard(|| Timestamp::from_nanosecond(x)).ok().and_then(|t| t.ok()).map(|t| (x, t))).collect();
    r.require(tss.len() == pool.len(), "every pool value constructs");
    let n_pairs = AtomicU64::new(0);
    tss.par_iter().for_each(|&(xa, a)| {
        for &(xb, b) in &tss {
            let res = guard(|| (a.cmp(&b), a.partial_cmp(&b), a == b, a != b, a < b, a <= b, a > b, a >= b, h(&a) == h(&b), a.max(b).as_nanosecond(), a.min(b).as_nanosecond()));
            let case = format!("a={}ns b={}ns", xa, xb);
            match res {
                Err(p) => r.viol(section, &format!("Timestamp::cmp/{}", panic_sig(&p)), case, p),
                Ok(got) => {
                    let c = xa.cmp(&xb);
                    let want = (c, Some(c), xa == xb, xa != xb, xa < xb, xa <= xb, xa > xb, xa >= xb, if xa == xb { true } else { got.8 }, xa.max(xb), xa.min(xb));
                    if got != want {
                        let class = format!("a{}0,b{}0,same-second:{}", if xa < 0 { "<" } else { ">=" }, if xb < 0 { "<" } else { ">=" }, xa / NS == xb / NS);
                        r.viol(section, &format!("Timestamp::cmp|eq|hash/value:{}", class), case, format!("jiff {:?} model {:?}", got, want));
                    }
                }
            }
        }
        n_pairs.fetch_add(tss.len() as u64, Ordering::Relaxed);
    });
    let n = n_pairs.load(Ordering::Relaxed);
    r.add_states(tss.len() as u64);
    r.add_transitions(n);
    r.add_validated(n * 11);
    r.outcome("ordering_pairs", n);
    r.require(n > 10_000, "ordering pairs enumerated");
    // Default and the constants
    r.add_validated(4);
    match guard(|| (Timestamp::default().as_nanosecond(), Timestamp::UNIX_EPOCH.as_nanosecond(), Timestamp::MIN.as_nanosecond(), Timestamp::MAX.as_nanosecond())) {
        Err(p) => r.viol(section, &format!("Timestamp::constants/{}", panic_sig(&p)), "constants", p),
        Ok(got) => {
            if got != (0, 0, MIN_NS, MAX_NS) {
                r.viol(section, "Timestamp::constants/value", "constants", format!("jiff (default, UNIX_EPOCH, MIN, MAX) = {:?}", got));
            }
        }
    }
}
