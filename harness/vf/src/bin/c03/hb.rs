//! Shared by C03 and C04 (`#[path = "c03/hb.rs"] mod hb;`):
//!
//! * a tiny TZif *writer* and a set of hand-built, well-formed TZif files for
//!   shapes zic cannot be made to emit (offsets of +-25:59:59, a transition
//!   inside the gap/fold window of the previous one, transitions at
//!   consecutive seconds, changes of abbreviation/DST flag only, version-1-only
//!   data, no footer, designations sharing storage, transitions outside the
//!   timestamp range);
//! * the small POSIX alphabet that is probed at *every* rule year from -9999
//!   to 9999 (the big product alphabet is probed over one 400-year cycle);
//! * the exact windows in which jiff's per-year evaluation of a POSIX rule
//!   (known finding F7) can differ from the exact timeline, on the UTC side
//!   and on the wall-clock side.

#![allow(dead_code)]

use refmodel::cal;
use refmodel::tz as rtz;
use std::collections::BTreeMap;
use vf::zones::ZoneSrc;
use vf::Report;

pub const NS: i128 = 1_000_000_000;
pub const F7: &str = "posix-rule-transition-outside-its-utc-year";
/// jiff materialises footer transitions of UTC years below 2038 (documented
/// constant FATTEN_UP_TO_YEAR); a rule of year 2038 can still land in 2037.
pub const FATTEN_LAST_RULE_YEAR: i64 = 2038;

// ---------------------------------------------------------------------------
// TZif writer
// ---------------------------------------------------------------------------

pub struct Spec<'a> {
    pub name: &'a str,
    /// 1 = version-1-only (32-bit block, no footer), 2/3/4 = v2+ file.
    pub version: u8,
    /// (utoff, isdst, abbreviation)
    pub types: Vec<(i32, bool, &'a str)>,
    /// (unix second, type index), strictly increasing
    pub trans: Vec<(i64, u8)>,
    pub footer: &'a str,
    /// store abbreviations so that one is the suffix of another where possible
    pub share_suffix: bool,
}

fn block(spec: &Spec, tsize: usize, version_byte: u8, trans: &[(i64, u8)]) -> Vec<u8> {
    // designation table
    let mut chars: Vec<u8> = vec![];
    let mut idx: Vec<u8> = vec![];
    for (_, _, a) in &spec.types {
        let ab = a.as_bytes();
        // exact or (if asked) suffix sharing
        let mut found = None;
        let mut i = 0;
        while i < chars.len() {
            let end = i + chars[i..].iter().position(|&c| c == 0).unwrap();
            let s = &chars[i..end];
            if s == ab {
                found = Some(i);
                break;
            }
            if spec.share_suffix && s.len() > ab.len() && &s[s.len() - ab.len()..] == ab {
                found = Some(end - ab.len());
                break;
            }
            i = end + 1;
        }
        match found {
            Some(i) => idx.push(i as u8),
            None => {
                idx.push(chars.len() as u8);
                chars.extend_from_slice(ab);
                chars.push(0);
            }
        }
    }
    let mut b = vec![];
    b.extend_from_slice(b"TZif");
    b.push(version_byte);
    b.extend_from_slice(&[0u8; 15]);
    let n = |x: usize| (x as u32).to_be_bytes();
    b.extend_from_slice(&n(0)); // isutcnt
    b.extend_from_slice(&n(0)); // isstdcnt
    b.extend_from_slice(&n(0)); // leapcnt
    b.extend_from_slice(&n(trans.len()));
    b.extend_from_slice(&n(spec.types.len()));
    b.extend_from_slice(&n(chars.len()));
    for (t, _) in trans {
        if tsize == 8 {
            b.extend_from_slice(&t.to_be_bytes());
        } else {
            b.extend_from_slice(&(*t as i32).to_be_bytes());
        }
    }
    for (_, ti) in trans {
        b.push(*ti);
    }
    for (k, (off, dst, _)) in spec.types.iter().enumerate() {
        b.extend_from_slice(&off.to_be_bytes());
        b.push(*dst as u8);
        b.push(idx[k]);
    }
    b.extend_from_slice(&chars);
    b
}

pub fn build(spec: &Spec) -> Vec<u8> {
    if spec.version == 1 {
        return block(spec, 4, 0, &spec.trans);
    }
    let vb = b'0' + spec.version;
    // v1 block: the transitions that fit 32 bits
    let t32: Vec<(i64, u8)> =
        spec.trans.iter().copied().filter(|(t, _)| *t >= i32::MIN as i64 && *t <= i32::MAX as i64).collect();
    let mut b = block(spec, 4, vb, &t32);
    b.extend_from_slice(&block(spec, 8, vb, &spec.trans));
    b.push(b'\n');
    b.extend_from_slice(spec.footer.as_bytes());
    b.push(b'\n');
    b
}

fn d(y: i64, m: i64, dd: i64, h: i64, mi: i64, s: i64) -> i64 {
    cal::days_from_civil(y, m, dd) * 86400 + h * 3600 + mi * 60 + s
}

/// The hand-built corpus. Every file is well-formed by RFC 8536/9636: sorted
/// transitions, valid type and designation indices, offsets within jiff's
/// documented +-25:59:59, abbreviations of 3..6 ASCII letters.
pub fn handbuilt() -> Vec<ZoneSrc> {
    let max = 93_599; // 25:59:59
    let t0 = d(2000, 4, 10, 0, 0, 0);
    let specs = vec![
        // extreme offsets and the widest possible jumps (51:59:58 forward, then back)
        Spec {
            name: "HB/WideJump26",
            version: 2,
            types: vec![(-max, false, "WMIN"), (max, false, "WMAX"), (-max, true, "WMID")],
            trans: vec![(d(1960, 1, 1, 0, 0, 0), 1), (d(1969, 12, 31, 23, 59, 59), 2), (d(2001, 1, 1, 0, 0, 0), 1), (d(2040, 6, 1, 12, 0, 0), 0)],
            footer: "",
            share_suffix: false,
        },
        // a transition inside the gap of the previous one
        Spec {
            name: "HB/TwoInGap",
            version: 2,
            types: vec![(0, false, "XXX"), (7200, true, "YYY")],
            trans: vec![(t0, 1), (t0 + 1800, 0)],
            footer: "",
            share_suffix: false,
        },
        // a transition inside the fold of the previous one
        Spec {
            name: "HB/TwoInFold",
            version: 3,
            types: vec![(7200, false, "PPP"), (0, true, "QQQ")],
            trans: vec![(t0, 1), (t0 + 1800, 0)],
            footer: "",
            share_suffix: false,
        },
        // transitions at consecutive seconds, around the epoch and before it
        Spec {
            name: "HB/Consecutive",
            version: 2,
            types: vec![(3600, false, "CAA"), (7200, false, "CBB"), (10800, true, "CCC"), (-3600, false, "CDD")],
            trans: vec![(d(1890, 1, 1, 0, 0, 0), 2), (d(1890, 1, 1, 0, 0, 1), 3), (-2, 1), (-1, 2), (0, 3), (1, 0), (2, 1)],
            footer: "",
            share_suffix: false,
        },
        // only the abbreviation / only the DST flag changes; first transition uses type 2
        Spec {
            name: "HB/FlagsOnly",
            version: 2,
            types: vec![(3600, false, "LMT"), (3600, false, "FAA"), (3600, true, "FAA"), (3600, true, "FBB"), (3600, false, "LMT")],
            trans: vec![(d(1900, 1, 1, 0, 0, 0), 2), (d(1950, 1, 1, 0, 0, 0), 1), (d(1969, 12, 31, 23, 59, 59), 3), (d(2000, 1, 1, 0, 0, 0), 4), (d(2030, 1, 1, 0, 0, 0), 1)],
            footer: "FAA-1",
            share_suffix: false,
        },
        // version-1-only data: 32-bit transitions, no footer at all
        Spec {
            name: "HB/V1Only",
            version: 1,
            types: vec![(-18000, false, "EST"), (-14400, true, "EDT")],
            trans: vec![(i32::MIN as i64, 0), (d(1969, 4, 27, 7, 0, 0), 1), (d(1969, 10, 26, 6, 0, 0), 0), (d(2037, 3, 8, 7, 0, 0), 1), (i32::MAX as i64, 0)],
            footer: "",
            share_suffix: false,
        },
        // v2+ data with transitions but an empty footer; v4 header
        Spec {
            name: "HB/NoFooterV4",
            version: 4,
            types: vec![(34200, false, "ACST"), (37800, true, "ACDT")],
            trans: vec![(d(1971, 10, 31, 2, 0, 0) - 34200, 1), (d(1972, 2, 27, 3, 0, 0) - 37800, 0), (d(2050, 10, 2, 2, 0, 0) - 34200, 1)],
            footer: "",
            share_suffix: false,
        },
        // footer without DST after DST transitions; designations sharing storage (EST inside AEST)
        Spec {
            name: "HB/FooterNoDstShared",
            version: 2,
            types: vec![(36000, false, "AEST"), (39600, true, "AEDT"), (36000, false, "EST"), (-36000, false, "HST")],
            trans: vec![(d(1980, 10, 26, 2, 0, 0) - 36000, 1), (d(1981, 3, 1, 3, 0, 0) - 39600, 2), (d(1990, 1, 1, 0, 0, 0), 3)],
            footer: "HST10",
            share_suffix: true,
        },
        // footer with DST whose first rule instants follow the last recorded
        // transition by seconds (hand-over), southern hemisphere
        Spec {
            name: "HB/HandOverSouth",
            version: 3,
            types: vec![(-14400, false, "LMT"), (-10800, false, "SST"), (-7200, true, "SDT")],
            trans: vec![(d(1990, 1, 1, 0, 0, 0), 1), (d(2000, 10, 15, 3, 0, 0) - 1, 2)],
            footer: "SST3SDT,M10.3.0/0,M2.3.0/0",
            share_suffix: false,
        },
        // no transitions at all, only a DST footer (governs the whole range)
        Spec {
            name: "HB/FooterOnlyDst",
            version: 2,
            types: vec![(3600, false, "CET")],
            trans: vec![],
            footer: "CET-1CEST,M3.5.0,M10.5.0/3",
            share_suffix: false,
        },
    ];
    let mut out: Vec<ZoneSrc> = specs
        .iter()
        .map(|s| ZoneSrc { name: s.name.to_string(), origin: "handbuilt".into(), bytes: build(s), aliases: vec![] })
        .collect();
    // Transitions outside jiff's timestamp range (the range is jiff's, not the
    // format's): before Timestamp::MIN with a type other than 0, after
    // Timestamp::MAX.
    let oor = vec![
        Spec {
            name: "HB/BelowMin",
            version: 2,
            types: vec![(600, false, "LMT"), (3600, false, "BAA"), (7200, false, "BBB")],
            trans: vec![(-(1i64 << 59), 1), (d(1900, 1, 1, 0, 0, 0), 2)],
            footer: "BBB-2",
            share_suffix: false,
        },
        Spec {
            name: "HB/AboveMax",
            version: 2,
            types: vec![(600, false, "LMT"), (3600, false, "GAA"), (7200, false, "GBB")],
            trans: vec![(d(1900, 1, 1, 0, 0, 0), 1), (300_000_000_000, 2)],
            footer: "GBB-2",
            share_suffix: false,
        },
    ];
    out.extend(oor.iter().map(|s| ZoneSrc { name: s.name.to_string(), origin: "handbuilt".into(), bytes: build(s), aliases: vec![] }));
    out
}

// ---------------------------------------------------------------------------
// POSIX strings probed at every rule year
// ---------------------------------------------------------------------------

/// Strings whose DST period is shorter than the DST shift, so that the second
/// transition of the year lies inside the gap (or fold) window of the first.
/// Their meaning is unproblematic (both transitions on the same day of the
/// same year, in order), but they are outside `zones::posix_alphabet`.
pub fn posix_special() -> Vec<String> {
    vec![
        "XXX0YYY-2,J100/0,J100/2:30".to_string(),
        "XXX0YYY2,J100/0,J100/-1:30".to_string(),
        "AAA-5BBB-8,M6.2.3/1,M6.2.3/5".to_string(),
        // a DST period of zero length: start and end are the same instant
        // (01:00 GMT = 02:00 BST), so the zone never leaves standard time
        "GMT0BST,M3.5.0/1,M3.5.0/2".to_string(),
        "XXX3:30YYY3,J100/2,J100/2:30".to_string(),
    ]
}

/// Small alphabet for the every-year sweep: std offsets x rule shapes
/// (northern, southern, Julian with and without leap day, last-week and
/// first-week month rules, negative and fractional DST, large rule times).
pub fn posix_every_year() -> Vec<String> {
    posix_every_year_level(1)
}

/// `level` 0: each rule shape once (std offsets rotating); 1: the product.
pub fn posix_every_year_level(level: u8) -> Vec<String> {
    let stds = ["EST5", "<+0545>-5:45", "AAA12", "<+13>-13", "UTC0"];
    let rules = [
        "DDD,M3.2.0,M11.1.0",
        "DDD,M10.1.0/0,M4.1.0/3",
        "DDD,J60,J300/1:30:15",
        "DDD,59/24,300/0",
        "DDD,M3.5.0/-1,M10.5.0/26",
        "DDD,M2.5.3/167,M9.1.1/-167",
        "DDD,M12.5.6/22,M6.1.1",
        "DDD,J1/3,J182",
        // rule dates on the last day of February whose time (minus the offset)
        // carries into the next day: Feb 28 -> Mar 1 in common years, Feb 29 in
        // leap years (the date arithmetic behind the rule has its own
        // next-day routine)
        "DDD,J59/22,J300",
        "DDD,58/23:30,J300/1",
        "DDD,M10.3.6/24,M2.5.6/24",
    ];
    let mut v = vec![];
    if level == 0 {
        for (i, r) in rules.iter().enumerate() {
            v.push(format!("{}{}", stds[i % stds.len()], r));
        }
        v.push("UTC0".to_string());
        v.push("<+13>-13".to_string());
    } else {
        for s in stds {
            v.push(s.to_string());
            for r in rules {
                v.push(format!("{}{}", s, r));
            }
        }
    }
    // explicit DST offsets: negative DST (Dublin), half-hour DST (Lord Howe)
    v.push("IST-1GMT0,M10.5.0,M3.5.0/1".to_string());
    v.push("<+1030>-10:30<+11>-11,M10.1.0,M4.1.0".to_string());
    v.push("NST3:30NDT1:30,M3.2.0/0:01,M11.1.0/0:01".to_string());
    // transitions that leave their rule year (F7 family): Casablanca's footer, zic's permanent DST
    v.push("XXX-2<+01>-1,0/0,J365/23".to_string());
    v.push("PST-1PDT,0/0,J365/25".to_string());
    v.extend(posix_special());
    v
}

// ---------------------------------------------------------------------------
// F7 windows
// ---------------------------------------------------------------------------

fn year_bounds(y: i64) -> (i64, i64) {
    (cal::days_from_civil(y, 1, 1) * 86400, cal::days_from_civil(y + 1, 1, 1) * 86400)
}

/// UTC side. jiff evaluates a POSIX rule per UTC year with both transitions
/// clamped into `[Y-01-01T00:00:00, Y-12-31T23:59:59.999999999]`. For a
/// rule-generated breakpoint whose exact instant X lies outside its rule year
/// the answer can differ from the exact timeline only between X and the year
/// boundary it was clamped to: `[X, Y-01-01)` when X is early, and
/// `[(Y+1)-01-01 - 1ns, X)` when X is late (the clamp is one nanosecond before
/// the end of the year). For TZif data the footer's transitions up to 2037 are
/// materialised into the table of whole-second transitions ("fattening"), so
/// there the late window begins with the whole last second of the year.
/// Nothing outside these windows is attributed to F7.
pub fn f7_utc(z: &rtz::Zone, t_ns: i128, tzif: bool) -> bool {
    let sec = t_ns.div_euclid(NS) as i64;
    let i = z.piece_index_at(sec);
    let lo = i.saturating_sub(3);
    let hi = (i + 3).min(z.pieces.len() - 1);
    for j in lo..=hi {
        let p = &z.pieces[j];
        if p.recorded || !p.crosses_year {
            continue;
        }
        let (y0, y1) = year_bounds(p.rule_year);
        let x = p.start as i128 * NS;
        if p.start < y0 {
            if t_ns >= x && t_ns < y0 as i128 * NS {
                return true;
            }
        } else {
            let from = if tzif && p.rule_year <= FATTEN_LAST_RULE_YEAR { (y1 as i128 - 1) * NS } else { y1 as i128 * NS - 1 };
            if t_ns >= from && t_ns < x {
                return true;
            }
        }
    }
    false
}

/// Wall-clock side. The civil classification is computed per *wall-clock*
/// year from the two rule times read as wall-clock datetimes and clamped into
/// the year. With w1/w2 the two wall-clock readings of a rule-generated
/// breakpoint (its gap/fold window is `[min, max)`) and `d = |w1 - w2|`: if
/// the window reaches below `Y-01-01` the classification can differ within
/// `[min, max(max, Y-01-01 + d))` (the clamped transition produces a phantom
/// window of length d just inside the year); if it reaches `(Y+1)-01-01` or
/// beyond, within `[min(min, (Y+1)-01-01 - d) - 1s, max)`.
///
/// For TZif data jiff also materialises the footer's transitions up to 2037
/// from the *UTC* evaluation ("fattening"), so there a breakpoint whose UTC
/// instant X was clamped to the boundary B has its window at B instead of X:
/// `[min(X,B) + omin, max(X,B) + omax]`, for rule years up to 2038 only.
pub fn f7_wall(z: &rtz::Zone, civil_sec: i64, tzif: bool) -> bool {
    let i = z.piece_index_at(civil_sec);
    let lo = i.saturating_sub(4).max(1);
    let hi = (i + 4).min(z.pieces.len() - 1);
    for j in lo..=hi {
        let p = &z.pieces[j];
        if p.recorded {
            continue;
        }
        let o1 = z.infos[z.pieces[j - 1].info as usize].utoff as i64;
        let o2 = z.infos[p.info as usize].utoff as i64;
        let (y0, y1) = year_bounds(p.rule_year);
        let (wmin, wmax) = (p.start + o1.min(o2), p.start + o1.max(o2));
        let dd = (o1 - o2).abs();
        if wmin < y0 {
            if civil_sec >= wmin && civil_sec < wmax.max(y0 + dd) {
                return true;
            }
        } else if wmax >= y1 {
            if civil_sec >= wmin.min(y1 - dd) - 1 && civil_sec < wmax {
                return true;
            }
        }
        if tzif && p.crosses_year && p.rule_year <= FATTEN_LAST_RULE_YEAR {
            let b = if p.start < y0 { y0 } else { y1 - 1 };
            let (a, c) = (p.start.min(b) + o1.min(o2), p.start.max(b) + o1.max(o2));
            if civil_sec >= a - 1 && civil_sec <= c {
                return true;
            }
        }
    }
    false
}

/// Number of distinct transitions whose gap/fold window `[T+min, T+max)`
/// contains `civil_sec`. Two or more: the windows of neighbouring transitions
/// overlap (a transition inside the gap or fold of the previous one).
pub fn windows_containing(z: &rtz::Zone, civil_sec: i64) -> usize {
    let lo = z.piece_index_at(civil_sec.saturating_sub(100_000)).max(1);
    let hi = z.piece_index_at(civil_sec.saturating_add(100_000));
    let mut n = 0;
    for k in lo..=hi.min(z.pieces.len() - 1) {
        let o1 = z.infos[z.pieces[k - 1].info as usize].utoff as i64;
        let o2 = z.infos[z.pieces[k].info as usize].utoff as i64;
        let s = z.pieces[k].start;
        if o1 != o2 && civil_sec >= s + o1.min(o2) && civil_sec < s + o1.max(o2) {
            n += 1;
        }
    }
    n
}

/// For a zone whose rule-governed part comes from a POSIX rule: do the two
/// transitions of one rule year come in one order as instants and in the
/// opposite order as wall-clock readings (each read on the clock in force
/// before it)? This needs a DST period shorter than the DST shift, e.g.
/// `XXX0YYY2,J100/0,J100/-1:30`: DST (two hours *behind*) begins at 00:00 and
/// ends 30 minutes later at what the DST clock shows as 22:30 of the day
/// before. A per-year evaluation on the wall clock then takes the whole rest
/// of the year for the DST period.
pub fn posix_rule_wall_order_reversed(z: &rtz::Zone) -> bool {
    let n = z.pieces.len();
    let ks: Vec<usize> = (2..n)
        .filter(|&k| !z.pieces[k].recorded && !z.pieces[k - 1].recorded && z.pieces[k].rule_year == z.pieces[k - 1].rule_year)
        .take(8)
        .collect();
    ks.iter().any(|&k| {
        let o = |i: usize| z.infos[z.pieces[i].info as usize].utoff as i64;
        let (a, b) = (z.pieces[k - 1].start, z.pieces[k].start);
        a < b && a + o(k - 2) >= b + o(k - 1)
    })
}

/// Does `civil_sec` lie in the gap/fold window of a transition whose window
/// is longer than an adjacent piece? Precisely: for some transition k with
/// `civil_sec` in `[T_k+min, T_k+max)`, the instant read with the offset
/// before k falls before piece k-1 began, or the instant read with the offset
/// after k falls after piece k ended; or `civil_sec` lies in the windows of
/// two transitions. Then the two local time types around k are not the (only)
/// candidates for `civil_sec`.
pub fn window_longer_than_adjacent_piece(z: &rtz::Zone, civil_sec: i64) -> bool {
    let lo = z.piece_index_at(civil_sec.saturating_sub(100_000)).max(1);
    let hi = z.piece_index_at(civil_sec.saturating_add(100_000)).min(z.pieces.len() - 1);
    let mut n = 0;
    for k in lo..=hi {
        let o1 = z.infos[z.pieces[k - 1].info as usize].utoff as i64;
        let o2 = z.infos[z.pieces[k].info as usize].utoff as i64;
        let s = z.pieces[k].start;
        if o1 != o2 && civil_sec >= s + o1.min(o2) && civil_sec < s + o1.max(o2) {
            n += 1;
            let prev_start = z.pieces[k - 1].start;
            if (prev_start != i64::MIN && civil_sec - o1 < prev_start) || civil_sec - o2 >= z.piece_end(k) {
                return true;
            }
        }
    }
    n >= 2
}

// ---------------------------------------------------------------------------
// The former (wider) F7 windows, kept only to count how many probes the exact
// windows above now hold to the strict check.
// ---------------------------------------------------------------------------

pub fn zone_has_f7_pieces(z: &rtz::Zone) -> bool {
    (1..z.pieces.len()).any(|j| {
        let p = &z.pieces[j];
        if p.recorded {
            return false;
        }
        if p.crosses_year {
            return true;
        }
        let o1 = z.infos[z.pieces[j - 1].info as usize].utoff as i64;
        let o2 = z.infos[p.info as usize].utoff as i64;
        let (y0, y1) = year_bounds(p.rule_year);
        p.start + o1.min(o2) < y0 || p.start + o1.max(o2) >= y1 - 1
    })
}

pub fn former_f7_utc(z: &rtz::Zone, t_ns: i128) -> bool {
    let sec = t_ns.div_euclid(NS) as i64;
    let i = z.piece_index_at(sec);
    let lo = i.saturating_sub(3);
    let hi = (i + 3).min(z.pieces.len() - 1);
    for j in lo..=hi {
        let p = &z.pieces[j];
        if p.crosses_year {
            let (y0, y1) = year_bounds(p.rule_year);
            let (a, b) = if p.start < y0 { (p.start, y0) } else { (y1 - 1, p.start) };
            if sec >= a - 1 && sec <= b + 1 {
                return true;
            }
        }
    }
    false
}

pub fn former_f7_wall(z: &rtz::Zone, civil_sec: i64) -> bool {
    let i = z.piece_index_at(civil_sec);
    let lo = i.saturating_sub(4).max(1);
    let hi = (i + 4).min(z.pieces.len() - 1);
    for j in lo..=hi {
        let p = &z.pieces[j];
        if p.recorded {
            continue;
        }
        let o1 = z.infos[z.pieces[j - 1].info as usize].utoff as i64;
        let o2 = z.infos[p.info as usize].utoff as i64;
        let (y0, y1) = year_bounds(p.rule_year);
        let pts = [p.start, p.start + o1, p.start + o2];
        let mn = *pts.iter().min().unwrap();
        let mx = *pts.iter().max().unwrap();
        let (a, b) = if mn < y0 {
            (mn, mx.max(y0))
        } else if mx >= y1 - 1 {
            (mn.min(y1 - 1), mx)
        } else {
            continue;
        };
        if civil_sec >= a - 94_000 && civil_sec <= b + 94_000 {
            return true;
        }
    }
    false
}

// ---------------------------------------------------------------------------
// Per-zone aggregation of violations (the F7 family produces ~10^8 of them in
// the thorough tier; one mutex round trip each would dominate the run)
// ---------------------------------------------------------------------------

pub struct Agg {
    direct: bool,
    m: BTreeMap<String, (u64, String, String)>,
}

impl Agg {
    pub fn new(r: &Report) -> Agg {
        // replay and dump modes report every case directly
        Agg { direct: r.only_case.is_some() || std::env::var_os("VF_DUMP").is_some(), m: BTreeMap::new() }
    }
    pub fn add(&mut self, r: &Report, sec: &str, sig: &str, case: String, detail: impl FnOnce() -> String) {
        if self.direct {
            r.viol(sec, sig, case, detail());
            return;
        }
        match self.m.get_mut(sig) {
            None => {
                self.m.insert(sig.to_string(), (1, case, detail()));
            }
            Some(e) => {
                e.0 += 1;
                if (case.len(), &case) < (e.1.len(), &e.1) {
                    e.1 = case;
                    e.2 = detail();
                }
            }
        }
    }
    pub fn flush(self, r: &Report, sec: &str) {
        for (sig, (n, case, detail)) in self.m {
            r.viol_n(sec, &sig, case, detail, n);
        }
    }
}
