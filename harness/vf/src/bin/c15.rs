//! C15: durations round-trip through the friendly and the ISO 8601 formats.
//!
//! E1: the complete product of the friendly printer's options x a boundary
//! pool of `Span`s and `SignedDuration`s; the ISO printer in both cases;
//! `Display` (`{}` and `{:#}`) and `FromStr`.
//!
//! Oracle (no more than the property states):
//! * every printed text is accepted by the parser;
//! * configurations documented as lossless (no fractional unit and no
//!   HH:MM:SS; or fractional second/millisecond/microsecond resp. HH:MM:SS
//!   without a fixed precision): units above the fractional unit are equal
//!   field by field and the fractional unit and everything below it have the
//!   same exact total (i128 nanoseconds); a `SignedDuration` comes back
//!   identical;
//! * lossy configurations (a fixed precision in effect, fractional hours or
//!   minutes): calendar units identical and
//!   `|parsed - original| * 10^digits < unit` over the time part, in exact
//!   integer arithmetic (digits = the fixed precision, else the documented 9
//!   decimal places);
//! * ISO 8601: years..minutes identical and the same total of
//!   seconds-and-smaller units; a `SignedDuration` comes back identical.
//!
//! Three layers per printed text (`c15/reader.rs`, `c15/shape.rs`):
//! 1. the text is read by an *independent* reader written from the grammar in
//!    the `jiff::fmt::friendly` module documentation (resp. the ISO 8601
//!    duration grammar), which never calls jiff; what the text denotes (exact
//!    `i128`, unit of account 10^-9 ns) is compared with the original value
//!    under the same lossless / lossy rules (`.../text-denotes-another-value:*`,
//!    `.../text-outside-the-documented-grammar`); for lossy configurations
//!    the bound uses the number of fraction digits actually printed when that
//!    is larger than the configured precision;
//! 2. jiff's parser is compared with that reading of the same text
//!    (`.../value-differs-from-the-text`), so a failure is pinned on the
//!    printer or on the parser, and compensating errors cannot cancel;
//! 3. the documented effect of every printer option on the shape of the text
//!    (designator labels incl. singular/plural, spacing, sign placement,
//!    fractional unit, comma, padding width, precision digit count, zero
//!    unit, HH:MM:SS form, ISO designator case): the value round trip is
//!    invariant under most options, so without this layer the option alphabet
//!    would be enumerated vacuously (`friendly::SpanPrinter::<option>[..]/..`).
//! The original print -> jiff parse -> compare signatures are unchanged.
//!
//! Other entry points are tied to the checked ones by identity: `print_span`
//! / `print_duration` into `Vec<u8>` and `StdFmtWrite`, parsing from `&[u8]`,
//! `FromStr` on every printed text (friendly and ISO), `Display` `{}` /
//! `{:#}` and `Debug` against the default printers.

use jiff::fmt::friendly::{self, Designator, Direction, FractionalUnit, Spacing};
use jiff::fmt::temporal;
use jiff::{SignedDuration, Span, Unit};
use rayon::prelude::*;
use serde_json::json;
use vf::{guard, panic_sig, Report};

#[path = "c15/reader.rs"]
mod reader;
#[path = "c15/shape.rs"]
mod shape;
use reader::SCALE;
use shape::{Facts, ShapeCfg, ShapeTally};

// ---------------------------------------------------------------------------
// model side
// ---------------------------------------------------------------------------

/// Field order: years, months, weeks, days, hours, minutes, seconds,
/// milliseconds, microseconds, nanoseconds.
type Fields = [i64; 10];

const NAMES: [&str; 10] = ["y", "mo", "w", "d", "h", "m", "s", "ms", "us", "ns"];

/// Nanoseconds per time unit, indexed like `Fields` (calendar units: 0).
const SIZE: [i128; 10] = [0, 0, 0, 0, 3_600_000_000_000, 60_000_000_000, 1_000_000_000, 1_000_000, 1_000, 1];

/// The documented per-unit limits of a `Span`.
const LIMIT: [i64; 10] = [
    19_998,
    239_976,
    1_043_497,
    7_304_484,
    175_307_616,
    10_518_456_960,
    631_107_417_600,
    631_107_417_600_000,
    631_107_417_600_000_000,
    i64::MAX,
];

fn fields(s: &Span) -> Fields {
    [
        s.get_years() as i64,
        s.get_months() as i64,
        s.get_weeks() as i64,
        s.get_days() as i64,
        s.get_hours() as i64,
        s.get_minutes(),
        s.get_seconds(),
        s.get_milliseconds(),
        s.get_microseconds(),
        s.get_nanoseconds(),
    ]
}

fn mk_span(f: &Fields) -> Span {
    Span::new()
        .try_years(f[0])
        .and_then(|s| s.try_months(f[1]))
        .and_then(|s| s.try_weeks(f[2]))
        .and_then(|s| s.try_days(f[3]))
        .and_then(|s| s.try_hours(f[4]))
        .and_then(|s| s.try_minutes(f[5]))
        .and_then(|s| s.try_seconds(f[6]))
        .and_then(|s| s.try_milliseconds(f[7]))
        .and_then(|s| s.try_microseconds(f[8]))
        .and_then(|s| s.try_nanoseconds(f[9]))
        .unwrap_or_else(|e| panic!("pool span {:?} not constructible: {}", f, e))
}

/// Exact total (ns) of the time units with index >= k (k >= 4).
fn fold(f: &Fields, k: usize) -> i128 {
    (k..10).map(|i| f[i] as i128 * SIZE[i]).sum()
}

fn show_fields(f: &Fields) -> String {
    let mut s = String::from("P[");
    let mut first = true;
    for i in 0..10 {
        if f[i] != 0 {
            if !first {
                s.push(' ');
            }
            first = false;
            s.push_str(&format!("{}{}", f[i], NAMES[i]));
        }
    }
    if first {
        s.push('0');
    }
    s.push(']');
    s
}

fn show_dur(d: &SignedDuration) -> String {
    format!("D[{}s {}ns]", d.as_secs(), d.subsec_nanos())
}

// ---------------------------------------------------------------------------
// configurations
// ---------------------------------------------------------------------------

#[derive(Clone, Copy, Debug)]
struct Cfg {
    des: u8,          // 0 Verbose 1 Short 2 Compact 3 HumanTime
    sp: u8,           // 0 None 1 BetweenUnits 2 BetweenUnitsAndDesignators
    dir: u8,          // 0 Auto 1 Sign 2 ForceSign 3 Suffix
    frac: Option<u8>, // field index of the fractional unit: 4 h, 5 m, 6 s, 7 ms, 8 us
    comma: bool,
    hms: bool,
    pad: Option<u8>,
    prec: Option<u8>,
    zero: u8, // field index of the zero unit
}

const UNITS: [Unit; 10] = [
    Unit::Year,
    Unit::Month,
    Unit::Week,
    Unit::Day,
    Unit::Hour,
    Unit::Minute,
    Unit::Second,
    Unit::Millisecond,
    Unit::Microsecond,
    Unit::Nanosecond,
];

impl Cfg {
    fn printer(&self) -> friendly::SpanPrinter {
        let mut p = friendly::SpanPrinter::new()
            .designator(match self.des {
                0 => Designator::Verbose,
                1 => Designator::Short,
                2 => Designator::Compact,
                _ => Designator::HumanTime,
            })
            .spacing(match self.sp {
                0 => Spacing::None,
                1 => Spacing::BetweenUnits,
                _ => Spacing::BetweenUnitsAndDesignators,
            })
            .direction(match self.dir {
                0 => Direction::Auto,
                1 => Direction::Sign,
                2 => Direction::ForceSign,
                _ => Direction::Suffix,
            })
            .fractional(self.frac.map(|k| match k {
                4 => FractionalUnit::Hour,
                5 => FractionalUnit::Minute,
                6 => FractionalUnit::Second,
                7 => FractionalUnit::Millisecond,
                _ => FractionalUnit::Microsecond,
            }))
            .comma_after_designator(self.comma)
            .hours_minutes_seconds(self.hms)
            .precision(self.prec)
            .zero_unit(UNITS[self.zero as usize]);
        if let Some(d) = self.pad {
            p = p.padding(d);
        }
        p
    }

    /// The fractional unit in effect: HH:MM:SS forces seconds (documented).
    fn eff_frac(&self) -> Option<usize> {
        if self.hms {
            Some(6)
        } else {
            self.frac.map(|k| k as usize)
        }
    }

    /// Documented lossy: a fixed precision while a fractional unit is in
    /// effect (truncation), or fractional hours/minutes (9 decimal places).
    fn lossy(&self) -> bool {
        match self.eff_frac() {
            None => false,
            Some(k) => self.prec.is_some() || k < 6,
        }
    }

    /// Number of decimal places of the fractional unit that are kept.
    fn digits(&self) -> u32 {
        match self.prec {
            Some(p) => (p as u32).min(9),
            None => 9,
        }
    }

    fn shape(&self) -> ShapeCfg {
        ShapeCfg {
            des: self.des,
            sp: self.sp,
            dir: self.dir,
            eff_frac: self.eff_frac(),
            comma: self.comma,
            hms: self.hms,
            pad: self.pad,
            prec: self.prec,
            zero: self.zero as usize,
        }
    }

    fn show(&self) -> String {
        format!(
            "cfg[des={} sp={} dir={} frac={} comma={} hms={} pad={} prec={} zero={}]",
            ["Verbose", "Short", "Compact", "HumanTime"][self.des as usize],
            ["None", "BetweenUnits", "BetweenUnitsAndDesignators"][self.sp as usize],
            ["Auto", "Sign", "ForceSign", "Suffix"][self.dir as usize],
            self.frac.map(|k| NAMES[k as usize]).unwrap_or("-"),
            self.comma as u8,
            self.hms as u8,
            self.pad.map(|p| p.to_string()).unwrap_or_else(|| "-".into()),
            self.prec.map(|p| p.to_string()).unwrap_or_else(|| "-".into()),
            NAMES[self.zero as usize],
        )
    }
}

fn configs(pads: &[Option<u8>], precs: &[Option<u8>], zeros: &[u8]) -> Vec<Cfg> {
    let mut v = vec![];
    for des in 0..4u8 {
        for sp in 0..3u8 {
            for dir in 0..4u8 {
                for frac in [None, Some(4u8), Some(5), Some(6), Some(7), Some(8)] {
                    for comma in [false, true] {
                        for hms in [false, true] {
                            for &pad in pads {
                                for &prec in precs {
                                    for &zero in zeros {
                                        v.push(Cfg { des, sp, dir, frac, comma, hms, pad, prec, zero });
                                    }
                                }
                            }
                        }
                    }
                }
            }
        }
    }
    v
}

// ---------------------------------------------------------------------------
// pools
// ---------------------------------------------------------------------------

fn span_pool() -> Vec<Fields> {
    let mut pos: Vec<Fields> = vec![];
    let z: Fields = [0; 10];
    // every unit at {1, 2, carry-1, carry, limit}
    let carry: [i64; 10] = [10, 12, 5, 7, 24, 60, 60, 1000, 1000, 1000];
    for i in 0..10 {
        for v in [1, 2, carry[i] - 1, carry[i], LIMIT[i]] {
            let mut f = z;
            f[i] = v;
            pos.push(f);
        }
    }
    // the single-unit thresholds of the 64-bit paths
    for (i, v) in [(4usize, 2_562_047i64), (4, 2_562_048), (5, 153_722_867), (6, 9_223_372_036), (6, 9_223_372_037), (3, 30), (3, 31), (2, 4)] {
        let mut f = z;
        f[i] = v;
        pos.push(f);
    }
    // every pair of units at (1, 2)
    for i in 0..10 {
        for j in (i + 1)..10 {
            let mut f = z;
            f[i] = 1;
            f[j] = 2;
            pos.push(f);
        }
    }
    // every unit one below its limit
    for i in 0..10 {
        let mut f = z;
        f[i] = LIMIT[i] - 1;
        pos.push(f);
    }
    // every pair of units at (limit, limit), (1, limit), (limit, 1), (1, 1)
    for i in 0..10 {
        for j in (i + 1)..10 {
            for (a, b) in [(LIMIT[i], LIMIT[j]), (1, LIMIT[j]), (LIMIT[i], 1), (1, 1), (2, 2)] {
                let mut f = z;
                f[i] = a;
                f[j] = b;
                pos.push(f);
            }
        }
    }
    // all units at one below the limit; all at the limit but one unit
    {
        let mut f = LIMIT;
        for x in f.iter_mut() {
            *x -= 1;
        }
        pos.push(f);
        for i in 0..10 {
            let mut f = LIMIT;
            f[i] = 0;
            pos.push(f);
            let mut f = [1i64; 10];
            f[i] = 0;
            pos.push(f);
            let mut f = [1i64; 10];
            f[i] = 2;
            pos.push(f);
        }
    }
    // calendar units only (HH:MM:SS mode prints 00:00:00 after them)
    pos.push([1, 1, 1, 1, 0, 0, 0, 0, 0, 0]);
    pos.push([2, 2, 2, 2, 0, 0, 0, 0, 0, 0]);
    pos.push([0, 0, 1, 1, 0, 0, 0, 0, 0, 0]);
    // all-unit and fixed mixes
    pos.push([1; 10]);
    pos.push([2; 10]);
    pos.push(LIMIT);
    pos.push([9, 11, 4, 6, 23, 59, 59, 999, 999, 999]);
    pos.push([1, 2, 3, 4, 5, 6, 7, 8, 9, 10]);
    pos.push([1, 2, 0, 3, 0, 0, 0, 0, 0, 0]); // y+mo+d
    pos.push([0, 1, 0, 15, 12, 0, 0, 0, 0, 0]); // mo+d+h
    pos.push([0, 0, 0, 1, 1, 0, 0, 0, 0, 1]); // d+h+ns
    pos.push([0, 0, 0, 0, 1, 1, 1, 0, 0, 0]); // h+m+s
    pos.push([0, 0, 0, 0, 2, 59, 15, 123, 0, 0]); // documentation example
    pos.push([0, 0, 0, 15, 2, 59, 15, 123, 0, 0]);
    pos.push([1, 2, 0, 0, 15, 0, 30, 0, 0, 1]); // documentation example
    pos.push([0, 0, 0, 0, 0, 120, 0, 0, 0, 0]);
    pos.push([0, 0, 0, 0, LIMIT[4], LIMIT[5], LIMIT[6], LIMIT[7], LIMIT[8], LIMIT[9]]); // all time units at the limit
    pos.push([LIMIT[0], LIMIT[1], LIMIT[2], LIMIT[3], 0, 0, 0, 0, 0, 0]);
    pos.push([0, 0, 0, 0, LIMIT[4], LIMIT[5], 0, 0, 0, 0]);
    pos.push([0, 0, 0, 0, LIMIT[4], 59, 59, 999, 999, 999]);
    // sub-second mixes: sums across ms/us/ns, carries into seconds, 64-bit limits
    let sub: &[[i64; 4]] = &[
        // s, ms, us, ns
        [1, 1, 1, 1],
        [0, 999, 999, 999],
        [0, 1, 1000, 1000],
        [59, 999, 999, 1000],
        [59, 999, 1000, 0],
        [0, 999, 1000, 0],
        [0, 0, 999, 1000],
        [0, 0, 1_000_000, 0],
        [0, 0, 999_999, 0],
        [0, 0, 1_000_001, 0],
        [0, 0, 0, 1_000_000],
        [0, 0, 0, 999_999_999],
        [0, 0, 0, 1_000_000_000],
        [0, 0, 0, 1_000_000_001],
        [0, 123, 0, 0],
        [0, 0, 123_456, 0],
        [0, 0, 0, 123_456_789],
        [1, 500, 0, 0],
        [0, 1, 0, 1],
        [0, 100, 0, 0],
        [0, 10, 0, 0],
        [0, 0, 100, 0],
        [0, 0, 0, 100],
        [0, 0, 0, 10],
        [1, 0, 0, 1],
        [1, 0, 1, 0],
        [0, 1001, 0, 0],
        [0, 60_000, 0, 0],
        [0, 3_600_000, 0, 1],
        [0, 0, LIMIT[8], LIMIT[9]],
        [0, LIMIT[7], LIMIT[8], LIMIT[9]],
        [LIMIT[6], LIMIT[7], LIMIT[8], LIMIT[9]],
        [LIMIT[6], 0, 0, 1],
        [LIMIT[6], 1000, 0, 0],
        [LIMIT[6] - 1, 999, 999, 1001],
        [LIMIT[6] - 1, 999, 999, 1000],
        [0, LIMIT[7], 0, 1_000_000],
        [0, LIMIT[7] - 1, 999, 1000],
        [0, 0, LIMIT[8], 1000],
        [0, 0, LIMIT[8] - 1, 1999],
        [0, 0, 0, i64::MAX - 1],
        [9_223_372_036, 854, 775, 807],
        [9_223_372_036, 854, 775, 808],
        // unbalanced: the sub-second units overflow into seconds when folded
        [0, 5000, 0, 999_999_999],
        [0, 5000, 0, 1_000_000_000],
        [0, 1999, 1999, 1999],
        [1, 1999, 1_999_999, 1_999_999_999],
        [0, 999, 999_999, 999_999_999],
        [0, 0, 999_999, 999_999_999],
        [0, 0, 5_000_000, 999_999_999],
        [59, 1000, 0, 0],
        [59, 999, 999, 999],
        [60, 0, 0, 1],
        [3599, 999, 999, 1000],
        [0, 3_599_999, 999, 1000],
        [0, 2, 2, 2],
        [2, 2, 2, 2],
        [0, 0, 1, 1],
        [0, 1, 1, 0],
        [0, 0, 1, 500],
        [0, 1, 500, 0],
        [1, 0, 0, 500_000_000],
    ];
    for q in sub {
        let mut f = z;
        f[6] = q[0];
        f[7] = q[1];
        f[8] = q[2];
        f[9] = q[3];
        pos.push(f);
    }
    // with larger units present
    pos.push([0, 0, 0, 0, 1, 0, 0, 0, 0, 1]);
    pos.push([0, 0, 0, 0, 0, 1, 0, 1, 0, 0]);
    pos.push([0, 0, 0, 1, 0, 0, 2, 0, 0, 0]);
    pos.push([0, 0, 0, 1, 0, 0, 0, 0, 0, 1]);
    pos.push([0, 0, 0, 0, 2_562_047, 47, 16, 854, 775, 807]);
    pos.push([0, 0, 0, 0, 0, 59, 59, 999, 999, 999]);
    pos.push([0, 0, 0, 0, 23, 59, 59, 999, 999, 999]);
    pos.push([0, 0, 0, 0, 1, 1, 3, 0, 0, 0]); // 3663 s, documentation example
    let mut out = vec![z];
    let mut seen = std::collections::BTreeSet::new();
    seen.insert(z);
    for f in pos {
        if seen.insert(f) {
            out.push(f);
            let mut n = f;
            for x in n.iter_mut() {
                *x = -*x;
            }
            seen.insert(n);
            out.push(n);
        }
    }
    out
}

fn dur_pool() -> Vec<SignedDuration> {
    let mut v: Vec<(i64, i32)> = vec![(0, 0)];
    let secs: [i64; 9] = [0, 1, 59, 60, 3599, 3600, 3661, 86_400, 360_000];
    let nanos: [i32; 10] = [0, 1, 10, 1_000, 1_000_000, 1_001_001, 123_456_789, 500_000_000, 999_000_000, 999_999_999];
    for &s in &secs {
        for &n in &nanos {
            if s == 0 && n == 0 {
                continue;
            }
            v.push((s, n));
            v.push((-s, -n));
        }
    }
    for &(s, n) in &[
        (3663i64, 0i32),
        (86_525, 123_000_789),
        (10_799 - 44, 123_000_000),
        (631_107_417_600, 0),
        (631_107_417_600, 999_999_999),
        (631_107_417_601, 0),
        (9_223_372_036, 854_775_807),
        (9_223_372_036, 854_775_808),
        (1 << 53, 1),
        (1_000_000_000_000_000, 0),
        (i64::MAX / 3600 * 3600, 0),
        (i64::MAX - 1, 999_999_999),
        (i64::MAX, 0),
        (i64::MAX, 1),
        // every unit one / two (singular and plural labels)
        (3661, 1_001_001),
        (7322, 2_002_002),
        (3600, 1_000_000),
        (3600, 1),
        (60, 1_000),
        (7200, 0),
        (120, 0),
        (2, 0),
        (0, 2_000_000),
        (0, 2_000),
        (0, 2),
        (1, 500_000_000),
        (0, 1_500_000),
        (0, 1_500),
        (5400, 0),
        (90, 0),
        (3599, 999_999_999),
        (59, 999_999_999),
        (i64::MAX / 3600 * 3600 - 1, 999_999_999),
    ] {
        v.push((s, n));
        v.push((-s, -n));
    }
    let mut out: Vec<SignedDuration> = v.into_iter().map(|(s, n)| SignedDuration::new(s, n)).collect();
    out.push(SignedDuration::MAX);
    out.push(SignedDuration::MIN);
    out.push(SignedDuration::new(i64::MIN, 0));
    out.push(SignedDuration::new(i64::MIN, -1));
    out.push(SignedDuration::new(i64::MIN + 1, -999_999_999));
    out.push(SignedDuration::new(i64::MIN + 1, 0));
    out.push(SignedDuration::new(i64::MIN / 3600 * 3600, 0));
    out.push(SignedDuration::new(i64::MIN / 3600 * 3600, -999_999_999));
    out.push(SignedDuration::new(i64::MIN / 3600 * 3600 + 1, 0));
    let mut seen = std::collections::BTreeSet::new();
    out.retain(|d| seen.insert((d.as_secs(), d.subsec_nanos())));
    out
}

// ---------------------------------------------------------------------------
// per-case checks
// ---------------------------------------------------------------------------

#[derive(Default, Clone, Copy)]
struct Tally {
    cases: u64,
    lossless: u64,
    lossy: u64,
    lossy_changed: u64,
    rebalanced: u64,
    with_fraction: u64,
    with_ago: u64,
    with_plus: u64,
    with_minus: u64,
    with_colon: u64,
    with_comma: u64,
    panics: u64,
    rejected: u64,
    read: u64,
    read_lossless: u64,
    read_lossy: u64,
    parser_vs_reader: u64,
    shape: ShapeTally,
}

impl Tally {
    fn add(mut self, o: Tally) -> Tally {
        self.cases += o.cases;
        self.lossless += o.lossless;
        self.lossy += o.lossy;
        self.lossy_changed += o.lossy_changed;
        self.rebalanced += o.rebalanced;
        self.with_fraction += o.with_fraction;
        self.with_ago += o.with_ago;
        self.with_plus += o.with_plus;
        self.with_minus += o.with_minus;
        self.with_colon += o.with_colon;
        self.with_comma += o.with_comma;
        self.panics += o.panics;
        self.rejected += o.rejected;
        self.read += o.read;
        self.read_lossless += o.read_lossless;
        self.read_lossy += o.read_lossy;
        self.parser_vs_reader += o.parser_vs_reader;
        self.shape = self.shape.add(o.shape);
        self
    }
    fn text(&mut self, t: &str) {
        let b = t.as_bytes();
        self.with_fraction += b.contains(&b'.') as u64;
        self.with_ago += t.ends_with("ago") as u64;
        self.with_plus += (b.first() == Some(&b'+')) as u64;
        self.with_minus += (b.first() == Some(&b'-')) as u64;
        self.with_colon += b.contains(&b':') as u64;
        self.with_comma += b.contains(&b',') as u64;
    }
    fn report(&self, r: &Report, prefix: &str) {
        r.add_states(self.cases);
        r.add_transitions(self.cases * 2);
        r.add_validated(self.cases);
        for (k, v) in [
            ("cases", self.cases),
            ("lossless_compared", self.lossless),
            ("lossy_compared", self.lossy),
            ("lossy_value_changed", self.lossy_changed),
            ("parsed_rebalanced_same_total", self.rebalanced),
            ("text_with_fraction", self.with_fraction),
            ("text_with_ago", self.with_ago),
            ("text_with_plus", self.with_plus),
            ("text_with_minus", self.with_minus),
            ("text_hms", self.with_colon),
            ("text_with_comma", self.with_comma),
            ("print_panics", self.panics),
            ("parser_rejections", self.rejected),
            ("text_read_independently", self.read),
            ("reader_lossless_compared", self.read_lossless),
            ("reader_lossy_compared", self.read_lossy),
            ("parser_compared_with_reader", self.parser_vs_reader),
            ("shape_checked", self.shape.checked),
            ("shape_singular_labels", self.shape.singular_seen),
            ("shape_plural_labels", self.shape.plural_seen),
            ("shape_abstained_suffix_hms_without_calendar", self.shape.abstained_suffix_hms_without_calendar),
            ("shape_abstained_padding_above_19", self.shape.abstained_padding_above_19),
        ] {
            r.outcome(&format!("{}.{}", prefix, k), v);
        }
    }
}

/// A comma immediately followed by something that is not whitespace: the
/// shape the friendly grammar documents as invalid ("a comma must be followed
/// by whitespace"). The F19 input class, read off the parser's input.
fn comma_without_space(t: &str) -> bool {
    let b = t.as_bytes();
    (0..b.len()).any(|i| b[i] == b',' && b.get(i + 1).map_or(true, |c| !c.is_ascii_whitespace()) && i > 0 && b[i - 1].is_ascii_alphabetic())
}

/// Input class of the F20 family: a negative `Span`, designator format,
/// fractional unit second/millisecond/microsecond, and something non-zero at
/// or below the fractional unit.
fn neg_fractional_class(f: &Fields, cfg: &Cfg) -> Option<&'static str> {
    if cfg.hms {
        return None;
    }
    let k = cfg.frac? as usize;
    if k < 6 {
        return None;
    }
    let negative = f.iter().any(|&x| x < 0);
    if negative && fold(f, k) != 0 {
        Some(NAMES[k])
    } else {
        None
    }
}

fn check_friendly_span(r: &Report, sec: &str, f: &Fields, span: &Span, cfg: &Cfg, p: &friendly::SpanPrinter, t: &mut Tally) {
    t.cases += 1;
    let case = || format!("{} {}", show_fields(f), cfg.show());
    let text = match guard(|| p.span_to_string(span)) {
        Ok(x) => x,
        Err(pm) => {
            t.panics += 1;
            let class = match neg_fractional_class(f, cfg) {
                Some(u) => format!(":negative-span,fractional={}", u),
                None => String::new(),
            };
            r.viol(sec, &format!("friendly::SpanPrinter::span_to_string/{}{}", panic_sig(&pm), class), case(), pm);
            return;
        }
    };
    t.text(&text);
    let rd = read_span_text(r, sec, "friendly::SpanPrinter::span_to_string", f, cfg, &text, &case, t);
    let parsed = match guard(|| friendly::SpanParser::new().parse_span(&text)) {
        Ok(x) => x,
        Err(pm) => {
            r.viol(sec, &format!("friendly::SpanParser::parse_span/{}", panic_sig(&pm)), case(), format!("text {:?}: {}", text, pm));
            return;
        }
    };
    let parsed = match parsed {
        Ok(x) => x,
        Err(e) => {
            t.rejected += 1;
            let sig = if comma_without_space(&text) {
                "friendly::SpanParser::parse_span/rejects-printed-text:comma-not-followed-by-space(comma_after_designator+Spacing::None)".to_string()
            } else if let Some(u) = neg_fractional_class(f, cfg) {
                format!("friendly::SpanParser::parse_span/rejects-printed-text:negative-span,fractional={}", u)
            } else {
                "friendly::SpanParser::parse_span/rejects-printed-text".to_string()
            };
            r.viol(sec, &sig, case(), format!("printed {:?}; parser: {}", text, e));
            return;
        }
    };
    let g = fields(&parsed);
    if let Some(fr) = &rd {
        parser_vs_reader_span(r, sec, "friendly::SpanParser::parse_span", fr, &g, &text, &case, t);
    }
    compare_span(r, sec, "friendly", f, &g, cfg, &text, &case, t);
}

/// Read the printed text independently of jiff and compare what it denotes
/// with the original span, per the property: lossless configurations unit for
/// unit (with a fractional unit: the units above it unit for unit, the rest
/// as one exact total), lossy ones within one unit of the last digit. Then
/// the documented shape of every option.
fn read_span_text<'a>(r: &Report, sec: &str, op: &str, f: &Fields, cfg: &Cfg, text: &'a str, case: &dyn Fn() -> String, t: &mut Tally) -> Option<reader::Friendly<'a>> {
    let fr = match reader::read_friendly(text) {
        Ok(x) => x,
        Err(e) => {
            r.viol(sec, &format!("{}/text-outside-the-documented-grammar", op), case(), format!("printed {:?}; independent reader: {}", text, e));
            return None;
        }
    };
    t.read += 1;
    let bad = |class: &str, detail: String| {
        r.viol(sec, &format!("{}/text-denotes-another-value:{}", op, class), case(), format!("printed {:?} original {}: {}", text, show_fields(f), detail));
    };
    let all = fr.signed_fields_below(10);
    let same_upto = |k: usize| (0..k).all(|i| all[i] == f[i] as i128);
    match cfg.eff_frac() {
        k if !cfg.lossy() => {
            t.read_lossless += 1;
            let k = k.unwrap_or(10);
            if !same_upto(k) {
                bad(if k == 10 { "units" } else { "units-above-the-fractional-unit" }, format!("text reads {:?}", &all[..k]));
            } else {
                let from = if k == 10 { 4 } else { k };
                match fr.time_scaled_from(from) {
                    Some(x) if x == fold(f, from) * SCALE => {}
                    x => bad("folded-total", format!("text total {:?} want {} (10^-9 ns, units from index {})", x, fold(f, from) * SCALE, from)),
                }
            }
        }
        k => {
            t.read_lossy += 1;
            let k = k.unwrap();
            if !same_upto(4) {
                bad("calendar-units", format!("text reads {:?}", &all[..4]));
            } else {
                let printed = fr.fraction_digits().map_or(0, |(_, d)| d as u32);
                let digits = cfg.digits().max(printed);
                let ok = fr.time_scaled_from(4).map_or(false, |x| (x - fold(f, 4) * SCALE).abs().checked_mul(10i128.pow(digits)).map_or(false, |y| y < SIZE[k] * SCALE));
                if !ok {
                    bad("error-not-below-one-unit-of-last-digit", format!("text total {:?} original {} (10^-9 ns), unit {} ns / 10^{}", fr.time_scaled_from(4), fold(f, 4) * SCALE, SIZE[k], digits));
                }
            }
        }
    }
    let fa = Facts { negative: f.iter().any(|&x| x < 0), zero: f.iter().all(|&x| x == 0), has_cal: f[..4].iter().any(|&x| x != 0) };
    shape::check(&fr, &cfg.shape(), &fa, &mut t.shape, &mut |what, detail| {
        let (opt, class) = what.split_once('/').unwrap();
        r.viol(sec, &format!("friendly::SpanPrinter::{}[print_span]/{}", opt, class), case(), format!("printed {:?} {}", text, detail));
    });
    Some(fr)
}

/// jiff's parser against the independent reading of the same text: units
/// above a fraction equal one by one, the rest as one exact total.
fn parser_vs_reader_span(r: &Report, sec: &str, op: &str, fr: &reader::Friendly<'_>, g: &Fields, text: &str, case: &dyn Fn() -> String, t: &mut Tally) {
    t.parser_vs_reader += 1;
    let all = fr.signed_fields_below(10);
    // a time unit written above the limit of a `Span` cannot be kept as it
    // is: the parser documents that it then balances into smaller units
    // ("we need to be prepared to parse an unbalanced span"), so from that
    // unit on only the total is compared
    let over = (4..10).find(|&i| all[i].abs() > LIMIT[i] as i128).unwrap_or(10);
    let k = fr.fraction_digits().map_or(10, |(u, _)| u).min(over);
    let from = if k == 10 { 4 } else { k };
    let same = (0..k).all(|i| all[i] == g[i] as i128) && fr.time_scaled_from(from) == Some(fold(g, from) * SCALE);
    if !same {
        r.viol(sec, &format!("{}/value-differs-from-the-text", op), case(), format!("text {:?} reads {:?} total {:?}; parser gave {}", text, &all[..k], fr.time_scaled_from(from), show_fields(g)));
    }
}

fn compare_span(r: &Report, sec: &str, what: &str, f: &Fields, g: &Fields, cfg: &Cfg, text: &str, case: &dyn Fn() -> String, t: &mut Tally) {
    match cfg.eff_frac() {
        None => {
            t.lossless += 1;
            if f != g {
                r.viol(sec, &format!("{}-span/lossless:fields-differ", what), case(), format!("printed {:?} parsed {} original {}", text, show_fields(g), show_fields(f)));
            }
        }
        Some(k) if !cfg.lossy() => {
            t.lossless += 1;
            if f[..k] != g[..k] {
                r.viol(sec, &format!("{}-span/lossless-fractional:units-above-fraction-differ", what), case(), format!("printed {:?} parsed {} original {}", text, show_fields(g), show_fields(f)));
            } else if fold(f, k) != fold(g, k) {
                r.viol(
                    sec,
                    &format!("{}-span/lossless-fractional:folded-total-differs", what),
                    case(),
                    format!("printed {:?} parsed {} original {} totals {} vs {} ns", text, show_fields(g), show_fields(f), fold(g, k), fold(f, k)),
                );
            } else if f != g {
                t.rebalanced += 1;
            }
        }
        Some(k) => {
            t.lossy += 1;
            if f[..4] != g[..4] {
                r.viol(sec, &format!("{}-span/lossy:calendar-units-differ", what), case(), format!("printed {:?} parsed {} original {}", text, show_fields(g), show_fields(f)));
                return;
            }
            let (a, b) = (fold(f, 4), fold(g, 4));
            let diff = (a - b).abs();
            if diff != 0 {
                t.lossy_changed += 1;
            }
            let ok = diff.checked_mul(10i128.pow(cfg.digits())).map_or(false, |x| x < SIZE[k]);
            if !ok {
                r.viol(
                    sec,
                    &format!("{}-span/lossy:error-not-below-one-unit-of-last-digit", what),
                    case(),
                    format!("printed {:?} parsed {} ({} ns) original {} ({} ns): |diff| {} ns, bound {} ns / 10^{}", text, show_fields(g), b, show_fields(f), a, diff, SIZE[k], cfg.digits()),
                );
            }
        }
    }
}

fn check_friendly_dur(r: &Report, sec: &str, d: &SignedDuration, cfg: &Cfg, p: &friendly::SpanPrinter, t: &mut Tally) {
    t.cases += 1;
    let case = || format!("{} {}", show_dur(d), cfg.show());
    let text = match guard(|| p.duration_to_string(d)) {
        Ok(x) => x,
        Err(pm) => {
            t.panics += 1;
            r.viol(sec, &format!("friendly::SpanPrinter::duration_to_string/{}", panic_sig(&pm)), case(), pm);
            return;
        }
    };
    t.text(&text);
    let rd = read_dur_text(r, sec, "friendly::SpanPrinter::duration_to_string", d, cfg, &text, &case, t);
    let parsed = match guard(|| friendly::SpanParser::new().parse_duration(&text)) {
        Ok(x) => x,
        Err(pm) => {
            r.viol(sec, &format!("friendly::SpanParser::parse_duration/{}", panic_sig(&pm)), case(), format!("text {:?}: {}", text, pm));
            return;
        }
    };
    let parsed = match parsed {
        Ok(x) => x,
        Err(e) => {
            t.rejected += 1;
            let sig = if comma_without_space(&text) {
                "friendly::SpanParser::parse_duration/rejects-printed-text:comma-not-followed-by-space(comma_after_designator+Spacing::None)"
            } else if d.as_secs() == i64::MIN {
                "friendly::SpanParser::parse_duration/rejects-printed-text:duration-seconds=i64::MIN"
            } else if d.is_zero() && cfg.eff_frac().is_none() && cfg.zero < 4 {
                // "0y"/"0mo"/"0w"/"0d" printed for a zero SignedDuration:
                // parse_duration documents that it rejects calendar units
                "friendly::SpanParser::parse_duration/rejects-printed-text:zero-duration,zero_unit=calendar-unit"
            } else {
                "friendly::SpanParser::parse_duration/rejects-printed-text"
            };
            r.viol(sec, sig, case(), format!("printed {:?}; parser: {}", text, e));
            return;
        }
    };
    if let Some(fr) = &rd {
        parser_vs_reader_dur(r, sec, "friendly::SpanParser::parse_duration", fr, &parsed, &text, &case, t);
    }
    compare_dur(r, sec, "friendly", d, &parsed, cfg, &text, &case, t);
}

/// Like `read_span_text` for a `SignedDuration`: the text must denote the
/// identical duration (lossless) or one within a unit of the last digit, and
/// no calendar unit.
fn read_dur_text<'a>(r: &Report, sec: &str, op: &str, d: &SignedDuration, cfg: &Cfg, text: &'a str, case: &dyn Fn() -> String, t: &mut Tally) -> Option<reader::Friendly<'a>> {
    let fr = match reader::read_friendly(text) {
        Ok(x) => x,
        Err(e) => {
            r.viol(sec, &format!("{}/text-outside-the-documented-grammar", op), case(), format!("printed {:?}; independent reader: {}", text, e));
            return None;
        }
    };
    t.read += 1;
    let bad = |class: &str, detail: String| {
        r.viol(sec, &format!("{}/text-denotes-another-value:{}", op, class), case(), format!("printed {:?} original {}: {}", text, show_dur(d), detail));
    };
    let want = d.as_secs() as i128 * 1_000_000_000 * SCALE + d.subsec_nanos() as i128 * SCALE;
    let cal = fr.signed_fields_below(4);
    if cal[..4].iter().any(|&x| x != 0) {
        bad("calendar-units", format!("text reads {:?}", &cal[..4]));
    } else if !cfg.lossy() {
        t.read_lossless += 1;
        if fr.time_scaled_from(4) != Some(want) {
            bad("total", format!("text total {:?} want {} (10^-9 ns)", fr.time_scaled_from(4), want));
        }
    } else {
        t.read_lossy += 1;
        let k = cfg.eff_frac().unwrap();
        let printed = fr.fraction_digits().map_or(0, |(_, d)| d as u32);
        let digits = cfg.digits().max(printed);
        let ok = fr.time_scaled_from(4).map_or(false, |x| (x - want).abs().checked_mul(10i128.pow(digits)).map_or(false, |y| y < SIZE[k] * SCALE));
        if !ok {
            bad("error-not-below-one-unit-of-last-digit", format!("text total {:?} original {} (10^-9 ns), unit {} ns / 10^{}", fr.time_scaled_from(4), want, SIZE[k], digits));
        }
    }
    let fa = Facts { negative: d.is_negative(), zero: d.is_zero(), has_cal: false };
    shape::check(&fr, &cfg.shape(), &fa, &mut t.shape, &mut |what, detail| {
        let (opt, class) = what.split_once('/').unwrap();
        r.viol(sec, &format!("friendly::SpanPrinter::{}[print_duration]/{}", opt, class), case(), format!("printed {:?} {}", text, detail));
    });
    Some(fr)
}

fn parser_vs_reader_dur(r: &Report, sec: &str, op: &str, fr: &reader::Friendly<'_>, g: &SignedDuration, text: &str, case: &dyn Fn() -> String, t: &mut Tally) {
    t.parser_vs_reader += 1;
    let got = g.as_secs() as i128 * 1_000_000_000 * SCALE + g.subsec_nanos() as i128 * SCALE;
    if fr.time_scaled_from(4) != Some(got) {
        r.viol(sec, &format!("{}/value-differs-from-the-text", op), case(), format!("text {:?} total {:?}; parser gave {} = {}", text, fr.time_scaled_from(4), show_dur(g), got));
    }
}

fn compare_dur(r: &Report, sec: &str, what: &str, d: &SignedDuration, g: &SignedDuration, cfg: &Cfg, text: &str, case: &dyn Fn() -> String, t: &mut Tally) {
    let (a, b) = (d.as_nanos(), g.as_nanos());
    if !cfg.lossy() {
        t.lossless += 1;
        if d != g || a != b {
            r.viol(sec, &format!("{}-duration/lossless:value-differs", what), case(), format!("printed {:?} parsed {} original {}", text, show_dur(g), show_dur(d)));
        }
    } else {
        t.lossy += 1;
        let k = cfg.eff_frac().unwrap();
        let diff = (a - b).abs();
        if diff != 0 {
            t.lossy_changed += 1;
        }
        let ok = diff.checked_mul(10i128.pow(cfg.digits())).map_or(false, |x| x < SIZE[k]);
        if !ok {
            r.viol(
                sec,
                &format!("{}-duration/lossy:error-not-below-one-unit-of-last-digit", what),
                case(),
                format!("printed {:?} parsed {} original {}: |diff| {} ns, bound {} ns / 10^{}", text, show_dur(g), show_dur(d), diff, SIZE[k], cfg.digits()),
            );
        }
    }
}

fn entry_points_span(r: &Report, sec: &str, f: &Fields, s: &Span, cfg: &Cfg, p: &friendly::SpanPrinter) {
    let case = || format!("{} {}", show_fields(f), cfg.show());
    let res = guard(|| {
        let text = p.span_to_string(s);
        let mut v: Vec<u8> = vec![];
        p.print_span(s, &mut v).unwrap();
        let mut w = String::new();
        p.print_span(s, jiff::fmt::StdFmtWrite(&mut w)).unwrap();
        let a = friendly::SpanParser::new().parse_span(&text).map(|x| fields(&x)).map_err(|e| e.to_string());
        let b = friendly::SpanParser::new().parse_span(text.as_bytes()).map(|x| fields(&x)).map_err(|e| e.to_string());
        let c = text.parse::<Span>().map(|x| fields(&x)).map_err(|e| e.to_string());
        (text, v, w, a, b, c)
    });
    match res {
        Err(pm) => r.viol(sec, &format!("friendly::SpanPrinter::print_span/{}", panic_sig(&pm)), case(), pm),
        Ok((text, v, w, a, b, c)) => {
            if v != text.as_bytes() || w != text {
                r.viol(sec, "friendly::SpanPrinter::print_span/differs-from-span_to_string", case(), format!("span_to_string {:?} Vec<u8> {:?} StdFmtWrite {:?}", text, String::from_utf8_lossy(&v), w));
            }
            if a != b {
                r.viol(sec, "friendly::SpanParser::parse_span(&[u8])/differs-from-parse_span(&str)", case(), format!("text {:?}: {:?} vs {:?}", text, b, a));
            }
            if a.is_ok() != c.is_ok() || (a.is_ok() && a != c) {
                r.viol(sec, "Span::from_str/differs-from-friendly::SpanParser::parse_span", case(), format!("text {:?}: {:?} vs {:?}", text, c, a));
            }
        }
    }
}

fn entry_points_dur(r: &Report, sec: &str, d: &SignedDuration, cfg: &Cfg, p: &friendly::SpanPrinter) {
    let case = || format!("{} {}", show_dur(d), cfg.show());
    let res = guard(|| {
        let text = p.duration_to_string(d);
        let mut v: Vec<u8> = vec![];
        p.print_duration(d, &mut v).unwrap();
        let mut w = String::new();
        p.print_duration(d, jiff::fmt::StdFmtWrite(&mut w)).unwrap();
        let a = friendly::SpanParser::new().parse_duration(&text).map_err(|e| e.to_string());
        let b = friendly::SpanParser::new().parse_duration(text.as_bytes()).map_err(|e| e.to_string());
        let c = text.parse::<SignedDuration>().map_err(|e| e.to_string());
        (text, v, w, a, b, c)
    });
    match res {
        Err(pm) => r.viol(sec, &format!("friendly::SpanPrinter::print_duration/{}", panic_sig(&pm)), case(), pm),
        Ok((text, v, w, a, b, c)) => {
            if v != text.as_bytes() || w != text {
                r.viol(sec, "friendly::SpanPrinter::print_duration/differs-from-duration_to_string", case(), format!("duration_to_string {:?} Vec<u8> {:?} StdFmtWrite {:?}", text, String::from_utf8_lossy(&v), w));
            }
            if a != b {
                r.viol(sec, "friendly::SpanParser::parse_duration(&[u8])/differs-from-parse_duration(&str)", case(), format!("text {:?}: {:?} vs {:?}", text, b, a));
            }
            if a.is_ok() != c.is_ok() || (a.is_ok() && a != c) {
                r.viol(sec, "SignedDuration::from_str/differs-from-friendly::SpanParser::parse_duration", case(), format!("text {:?}: {:?} vs {:?}", text, c, a));
            }
        }
    }
}

/// ISO text read independently: years..minutes unit for unit, seconds and
/// smaller as one exact total; the designator case follows `lowercase`.
fn read_iso_span_text(r: &Report, sec: &str, op: &str, lower: bool, f: &Fields, text: &str, case: &dyn Fn() -> String, t: &mut Tally) -> Option<reader::Iso> {
    let io = match reader::read_iso(text) {
        Ok(x) => x,
        Err(e) => {
            r.viol(sec, &format!("{}/text-outside-the-ISO-8601-duration-grammar", op), case(), format!("printed {:?}; independent reader: {}", text, e));
            return None;
        }
    };
    t.read += 1;
    t.read_lossless += 1;
    let all = io.signed_fields_below(6);
    if (0..6).any(|i| all[i] != f[i] as i128) {
        r.viol(sec, &format!("{}/text-denotes-another-value:units-above-seconds", op), case(), format!("printed {:?} reads {:?} original {}", text, &all[..6], show_fields(f)));
    } else if io.time_scaled_from(6) != Some(fold(f, 6) * SCALE) {
        r.viol(sec, &format!("{}/text-denotes-another-value:folded-total", op), case(), format!("printed {:?} total {:?} want {}", text, io.time_scaled_from(6), fold(f, 6) * SCALE));
    }
    iso_case(r, sec, lower, &io, text, case);
    Some(io)
}

fn read_iso_dur_text(r: &Report, sec: &str, op: &str, lower: bool, d: &SignedDuration, text: &str, case: &dyn Fn() -> String, t: &mut Tally) -> Option<reader::Iso> {
    let io = match reader::read_iso(text) {
        Ok(x) => x,
        Err(e) => {
            r.viol(sec, &format!("{}/text-outside-the-ISO-8601-duration-grammar", op), case(), format!("printed {:?}; independent reader: {}", text, e));
            return None;
        }
    };
    t.read += 1;
    t.read_lossless += 1;
    let want = d.as_secs() as i128 * 1_000_000_000 * SCALE + d.subsec_nanos() as i128 * SCALE;
    let cal = io.signed_fields_below(4);
    if cal[..4].iter().any(|&x| x != 0) {
        r.viol(sec, &format!("{}/text-denotes-another-value:calendar-units", op), case(), format!("printed {:?}", text));
    } else if io.time_scaled_from(4) != Some(want) {
        r.viol(sec, &format!("{}/text-denotes-another-value:total", op), case(), format!("printed {:?} total {:?} want {}", text, io.time_scaled_from(4), want));
    }
    iso_case(r, sec, lower, &io, text, case);
    Some(io)
}

/// "Use lowercase for unit designator labels. By default, unit designator
/// labels are written in uppercase."
fn iso_case(r: &Report, sec: &str, lower: bool, io: &reader::Iso, text: &str, case: &dyn Fn() -> String) {
    if io.toks[..io.n].iter().any(|x| x.label.is_ascii_lowercase() != lower) {
        r.viol(sec, "temporal::SpanPrinter::lowercase/designator-case", case(), format!("printed {:?} with lowercase={}", text, lower));
    }
}

/// `print_span` into a `Vec<u8>` gives the same bytes; `FromStr` and parsing
/// from `&[u8]` give the same value as `temporal::SpanParser::parse_span`.
fn iso_other_entry_points_span(r: &Report, sec: &str, p: &temporal::SpanPrinter, s: &Span, text: &str, g: &Fields, case: &dyn Fn() -> String) {
    let res = guard(|| {
        let mut v: Vec<u8> = vec![];
        p.print_span(s, &mut v).unwrap();
        let b = temporal::SpanParser::new().parse_span(text.as_bytes()).map(|x| fields(&x)).map_err(|e| e.to_string());
        let c = text.parse::<Span>().map(|x| fields(&x)).map_err(|e| e.to_string());
        (v, b, c)
    });
    match res {
        Err(pm) => r.viol(sec, &format!("temporal::SpanPrinter::print_span/{}", panic_sig(&pm)), case(), pm),
        Ok((v, b, c)) => {
            if v != text.as_bytes() {
                r.viol(sec, "temporal::SpanPrinter::print_span/differs-from-span_to_string", case(), format!("{:?} vs {:?}", String::from_utf8_lossy(&v), text));
            }
            if b.as_ref() != Ok(g) {
                r.viol(sec, "temporal::SpanParser::parse_span(&[u8])/differs-from-parse_span(&str)", case(), format!("text {:?}: {:?}", text, b));
            }
            if c.as_ref() != Ok(g) {
                r.viol(sec, "Span::from_str/differs-from-temporal::SpanParser::parse_span", case(), format!("text {:?}: {:?}", text, c));
            }
        }
    }
}

fn iso_other_entry_points_dur(r: &Report, sec: &str, p: &temporal::SpanPrinter, d: &SignedDuration, text: &str, g: &SignedDuration, case: &dyn Fn() -> String) {
    let res = guard(|| {
        let mut v: Vec<u8> = vec![];
        p.print_duration(d, &mut v).unwrap();
        let b = temporal::SpanParser::new().parse_duration(text.as_bytes()).map_err(|e| e.to_string());
        let c = text.parse::<SignedDuration>().map_err(|e| e.to_string());
        (v, b, c)
    });
    match res {
        Err(pm) => r.viol(sec, &format!("temporal::SpanPrinter::print_duration/{}", panic_sig(&pm)), case(), pm),
        Ok((v, b, c)) => {
            if v != text.as_bytes() {
                r.viol(sec, "temporal::SpanPrinter::print_duration/differs-from-duration_to_string", case(), format!("{:?} vs {:?}", String::from_utf8_lossy(&v), text));
            }
            if b.as_ref() != Ok(g) {
                r.viol(sec, "temporal::SpanParser::parse_duration(&[u8])/differs-from-parse_duration(&str)", case(), format!("text {:?}: {:?}", text, b));
            }
            if c.as_ref() != Ok(g) {
                r.viol(sec, "SignedDuration::from_str/differs-from-temporal::SpanParser::parse_duration", case(), format!("text {:?}: {:?}", text, c));
            }
        }
    }
}

/// The ISO 8601 format behaves like "fractional seconds, lossless".
const ISO_CFG: Cfg = Cfg { des: 2, sp: 1, dir: 0, frac: Some(6), comma: false, hms: false, pad: None, prec: None, zero: 6 };
/// The default friendly printer (`{:#}`).
const DEFAULT_CFG: Cfg = Cfg { des: 2, sp: 1, dir: 0, frac: None, comma: false, hms: false, pad: None, prec: None, zero: 6 };

fn main() {
    let r = Report::from_args("C15");

    let all_spans = span_pool();
    let durs = dur_pool();
    // quick keeps the whole configuration product and trims the span pool if
    // needed; measured: the full pools fit the quick budget.
    let spans: Vec<(Fields, Span)> = all_spans.iter().map(|f| (*f, mk_span(f))).collect();
    for (f, s) in &spans {
        assert_eq!(&fields(s), f, "pool span must hold exactly the listed fields");
    }
    r.count("span_pool", spans.len() as u64);
    r.count("duration_pool", durs.len() as u64);

    // padding: 0, the HH:MM:SS default 2, the 19-digit cap of the integer
    // formatter and values beyond it; precision: every digit count in the
    // thorough tier, both ends, a middle value and a clamped one (> 9) in the
    // quick tier.
    let (pads, precs): (Vec<Option<u8>>, Vec<Option<u8>>) = if r.quick() {
        (vec![Some(0), Some(2), Some(19), Some(255)], vec![None, Some(0), Some(1), Some(3), Some(9), Some(10)])
    } else {
        (
            vec![Some(0), Some(1), Some(2), Some(5), Some(19), Some(20), Some(255)],
            vec![None, Some(0), Some(1), Some(2), Some(3), Some(4), Some(5), Some(6), Some(7), Some(8), Some(9), Some(10), Some(255)],
        )
    };
    // the zero unit only matters for a zero value: three zero units go with
    // the full padding x precision lists; the thorough tier adds all ten zero
    // units over the original padding x precision lists (the product declared
    // in DESIGN.md), and `friendly_zero_unit` below runs all ten against every
    // other option on the values around zero in both tiers
    let mut cfgs = configs(&pads, &precs, &[6, 4, 0]);
    if r.thorough() {
        let (p0, q0) = ([Some(0u8), Some(2), Some(5)], [None, Some(0u8), Some(3), Some(9)]);
        cfgs.extend(configs(&p0, &q0, &(0..10u8).collect::<Vec<_>>()).into_iter().filter(|c| ![6, 4, 0].contains(&c.zero)));
    }
    r.count("friendly_configurations", cfgs.len() as u64);
    // padding left unset (its documented default differs between the two
    // formats), zero unit at its default
    let dcfgs = configs(&[None], &precs, &[6]);
    r.count("friendly_configurations_default_padding", dcfgs.len() as u64);
    // every zero unit x every other option on the values around zero
    let zcfgs = configs(&[None, Some(0), Some(2), Some(19)], &[None, Some(0), Some(3), Some(9)], &(0..10u8).collect::<Vec<_>>());
    r.count("friendly_configurations_zero_unit", zcfgs.len() as u64);
    let zero_spans: Vec<(Fields, Span)> = spans
        .iter()
        .filter(|(f, _)| {
            let nz: Vec<usize> = (0..10).filter(|&i| f[i] != 0).collect();
            nz.is_empty() || (nz.len() == 1 && f[nz[0]].abs() == 1) || *f == [1; 10] || *f == [-1; 10]
        })
        .cloned()
        .collect();
    let zero_durs: Vec<SignedDuration> = durs.iter().filter(|d| d.as_secs().unsigned_abs() <= 1 && d.subsec_nanos().unsigned_abs() <= 1).cloned().collect();
    r.count("zero_unit_span_pool", zero_spans.len() as u64);
    r.count("zero_unit_duration_pool", zero_durs.len() as u64);

    r.section("friendly_span", || {
        let t = cfgs
            .par_iter()
            .map(|cfg| {
                let p = cfg.printer();
                let mut t = Tally::default();
                for (f, s) in &spans {
                    check_friendly_span(&r, "friendly_span", f, s, cfg, &p, &mut t);
                }
                t
            })
            .reduce(Tally::default, Tally::add);
        t.report(&r, "friendly_span");
        r.require(t.cases == (cfgs.len() * spans.len()) as u64, "full span x configuration product enumerated");
        r.require(t.lossless > 0 && t.lossy > 0 && t.lossy_changed > 0, "lossless and lossy configurations both exercised, truncation observed");
        r.require(t.rebalanced > 0, "folded sub-second totals re-balanced by the parser were observed");
        r.require(t.with_ago > 0 && t.with_plus > 0 && t.with_minus > 0 && t.with_colon > 0 && t.with_comma > 0 && t.with_fraction > 0, "every textual shape observed");
        r.require(t.read + t.panics == t.cases && t.shape.checked == t.read, "every printed span text was read independently and its shape checked");
        r.require(t.read_lossless > 0 && t.read_lossy > 0 && t.parser_vs_reader > 0, "reader: lossless, lossy and parser comparisons all exercised");
        r.require(t.shape.all_paths_seen(), "spans: every designator style wrote labels next to 0, 1, many and a fraction; every direction decided for zero, positive and negative values with and without HH:MM:SS");
    });

    r.section("friendly_duration", || {
        let t = cfgs
            .par_iter()
            .map(|cfg| {
                let p = cfg.printer();
                let mut t = Tally::default();
                for d in &durs {
                    check_friendly_dur(&r, "friendly_duration", d, cfg, &p, &mut t);
                }
                t
            })
            .reduce(Tally::default, Tally::add);
        t.report(&r, "friendly_duration");
        r.require(t.cases == (cfgs.len() * durs.len()) as u64, "full duration x configuration product enumerated");
        r.require(t.lossless > 0 && t.lossy > 0 && t.lossy_changed > 0, "lossless and lossy configurations both exercised");
        r.require(t.read + t.panics == t.cases && t.shape.checked == t.read, "every printed duration text was read independently and its shape checked");
        r.require(t.read_lossless > 0 && t.read_lossy > 0 && t.parser_vs_reader > 0, "reader: lossless, lossy and parser comparisons all exercised");
        r.require(t.shape.all_paths_seen(), "durations: every designator style wrote labels next to 0, 1, many and a fraction; every direction decided for zero, positive and negative values with and without HH:MM:SS");
    });

    r.section("friendly_default_padding", || {
        let t = dcfgs
            .par_iter()
            .map(|cfg| {
                let p = cfg.printer();
                let mut t = Tally::default();
                for (f, s) in &spans {
                    check_friendly_span(&r, "friendly_default_padding", f, s, cfg, &p, &mut t);
                }
                for d in &durs {
                    check_friendly_dur(&r, "friendly_default_padding", d, cfg, &p, &mut t);
                }
                t
            })
            .reduce(Tally::default, Tally::add);
        t.report(&r, "friendly_default_padding");
    });

    // every zero unit x every other option, on zero and the values next to it
    r.section("friendly_zero_unit", || {
        let t = zcfgs
            .par_iter()
            .map(|cfg| {
                let p = cfg.printer();
                let mut t = Tally::default();
                for (f, s) in &zero_spans {
                    check_friendly_span(&r, "friendly_zero_unit", f, s, cfg, &p, &mut t);
                }
                for d in &zero_durs {
                    check_friendly_dur(&r, "friendly_zero_unit", d, cfg, &p, &mut t);
                }
                t
            })
            .reduce(Tally::default, Tally::add);
        t.report(&r, "friendly_zero_unit");
        r.require(zero_spans.len() >= 23 && zero_durs.len() >= 7, "zero, every single unit at +-1 and all-ones are in the zero-unit pool");
        r.require(t.cases == (zcfgs.len() * (zero_spans.len() + zero_durs.len())) as u64, "full zero-unit product enumerated");
    });

    // the other entry points give the same bytes / the same value as the
    // ones checked above: print_span / print_duration into a `Vec<u8>` and
    // through `StdFmtWrite`; `FromStr` and parsing from `&[u8]`.
    r.section("friendly_entry_points", || {
        let n = dcfgs
            .par_iter()
            .map(|cfg| {
                let p = cfg.printer();
                let mut n = 0u64;
                for (f, s) in &spans {
                    n += 1;
                    entry_points_span(&r, "friendly_entry_points", f, s, cfg, &p);
                }
                for d in &durs {
                    n += 1;
                    entry_points_dur(&r, "friendly_entry_points", d, cfg, &p);
                }
                n
            })
            .sum::<u64>();
        r.outcome("friendly_entry_points.cases", n);
        r.add_states(n);
        r.add_transitions(n * 4);
        r.add_validated(n * 4);
    });

    r.section("iso", || {
        let mut t = Tally::default();
        for lower in [false, true] {
            let p = temporal::SpanPrinter::new().lowercase(lower);
            for (f, s) in &spans {
                t.cases += 1;
                let case = || format!("{} iso[lowercase={}]", show_fields(f), lower as u8);
                let text = match guard(|| p.span_to_string(s)) {
                    Ok(x) => x,
                    Err(pm) => {
                        r.viol("iso", &format!("temporal::SpanPrinter::span_to_string/{}", panic_sig(&pm)), case(), pm);
                        continue;
                    }
                };
                t.text(&text);
                let rd = read_iso_span_text(&r, "iso", "temporal::SpanPrinter::span_to_string", lower, f, &text, &case, &mut t);
                match guard(|| temporal::SpanParser::new().parse_span(&text)) {
                    Err(pm) => r.viol("iso", &format!("temporal::SpanParser::parse_span/{}", panic_sig(&pm)), case(), format!("text {:?}: {}", text, pm)),
                    Ok(Err(e)) => {
                        t.rejected += 1;
                        r.viol("iso", "temporal::SpanParser::parse_span/rejects-printed-text", case(), format!("printed {:?}; parser: {}", text, e))
                    }
                    Ok(Ok(g)) => {
                        let g = fields(&g);
                        if let Some(io) = &rd {
                            t.parser_vs_reader += 1;
                            let all = io.signed_fields_below(10);
                            let over = (4..10).find(|&i| all[i].abs() > LIMIT[i] as i128).unwrap_or(10);
                            let k = io.toks[..io.n].iter().find(|x| x.frac_digits > 0).map_or(10, |x| x.unit).min(over);
                            let from = if k == 10 { 4 } else { k };
                            if !((0..k).all(|i| all[i] == g[i] as i128) && io.time_scaled_from(from) == Some(fold(&g, from) * SCALE)) {
                                r.viol("iso", "temporal::SpanParser::parse_span/value-differs-from-the-text", case(), format!("text {:?} reads {:?}; parser gave {}", text, &all[..k], show_fields(&g)));
                            }
                        }
                        compare_span(&r, "iso", "iso", f, &g, &ISO_CFG, &text, &case, &mut t);
                        iso_other_entry_points_span(&r, "iso", &p, s, &text, &g, &case);
                    }
                }
            }
            for d in &durs {
                t.cases += 1;
                let case = || format!("{} iso[lowercase={}]", show_dur(d), lower as u8);
                let text = match guard(|| p.duration_to_string(d)) {
                    Ok(x) => x,
                    Err(pm) => {
                        r.viol("iso", &format!("temporal::SpanPrinter::duration_to_string/{}", panic_sig(&pm)), case(), pm);
                        continue;
                    }
                };
                t.text(&text);
                let rd = read_iso_dur_text(&r, "iso", "temporal::SpanPrinter::duration_to_string", lower, d, &text, &case, &mut t);
                match guard(|| temporal::SpanParser::new().parse_duration(&text)) {
                    Err(pm) => r.viol("iso", &format!("temporal::SpanParser::parse_duration/{}", panic_sig(&pm)), case(), format!("text {:?}: {}", text, pm)),
                    Ok(Err(e)) => {
                        t.rejected += 1;
                        r.viol("iso", "temporal::SpanParser::parse_duration/rejects-printed-text", case(), format!("printed {:?}; parser: {}", text, e))
                    }
                    Ok(Ok(g)) => {
                        if let Some(io) = &rd {
                            t.parser_vs_reader += 1;
                            let got = g.as_secs() as i128 * 1_000_000_000 * SCALE + g.subsec_nanos() as i128 * SCALE;
                            if io.time_scaled_from(4) != Some(got) {
                                r.viol("iso", "temporal::SpanParser::parse_duration/value-differs-from-the-text", case(), format!("text {:?} total {:?}; parser gave {}", text, io.time_scaled_from(4), show_dur(&g)));
                            }
                        }
                        compare_dur(&r, "iso", "iso", d, &g, &ISO_CFG, &text, &case, &mut t);
                        iso_other_entry_points_dur(&r, "iso", &p, d, &text, &g, &case);
                    }
                }
            }
        }
        t.report(&r, "iso");
        r.require(t.rebalanced > 0 && t.with_fraction > 0, "ISO: combined fractional seconds observed");
        r.require(t.read == t.cases && t.parser_vs_reader == t.cases, "ISO: every text read independently and compared with the parser");
    });

    r.section("display_fromstr", || {
        let mut t = Tally::default();
        // mode 0: `{}` (ISO 8601), 1: `{:#}` (friendly), 2: `{:?}` (friendly,
        // "Both Span and SignedDuration use the friendly format for its Debug")
        let mode_name = |m: u8| if m == 2 { "Debug".to_string() } else { format!("Display[alternate={}]", m) };
        let iso_p = temporal::SpanPrinter::new();
        let fr_p = friendly::SpanPrinter::new();
        for (f, s) in &spans {
            for mode in 0..3u8 {
                let alt = mode != 0;
                t.cases += 1;
                let case = || format!("{} {}", show_fields(f), mode_name(mode));
                let text = match guard(|| match mode {
                    0 => format!("{}", s),
                    1 => format!("{:#}", s),
                    _ => format!("{:?}", s),
                }) {
                    Ok(x) => x,
                    Err(pm) => {
                        r.viol("display_fromstr", &format!("Span::fmt/{}", panic_sig(&pm)), case(), pm);
                        continue;
                    }
                };
                t.text(&text);
                // "The default configuration of this printer is used for
                // alternate display formatting"
                if let Ok(want) = guard(|| if alt { fr_p.span_to_string(s) } else { iso_p.span_to_string(s) }) {
                    if want != text {
                        r.viol("display_fromstr", "Span::fmt/differs-from-the-default-printer", case(), format!("fmt {:?} printer {:?}", text, want));
                    }
                }
                if alt {
                    read_span_text(&r, "display_fromstr", "Span::fmt(friendly)", f, &DEFAULT_CFG, &text, &case, &mut t);
                } else {
                    read_iso_span_text(&r, "display_fromstr", "Span::fmt(ISO)", false, f, &text, &case, &mut t);
                }
                let cfg = if alt { &DEFAULT_CFG } else { &ISO_CFG };
                let what = match mode {
                    0 => "Display-FromStr",
                    1 => "Display#-FromStr",
                    _ => "Debug-FromStr",
                };
                match guard(|| text.parse::<Span>()) {
                    Err(pm) => r.viol("display_fromstr", &format!("Span::from_str/{}", panic_sig(&pm)), case(), format!("text {:?}: {}", text, pm)),
                    Ok(Err(e)) => {
                        t.rejected += 1;
                        r.viol("display_fromstr", "Span::from_str/rejects-displayed-text", case(), format!("printed {:?}; parser: {}", text, e))
                    }
                    Ok(Ok(g)) => compare_span(&r, "display_fromstr", what, f, &fields(&g), cfg, &text, &case, &mut t),
                }
            }
        }
        for d in &durs {
            for mode in 0..3u8 {
                let alt = mode != 0;
                t.cases += 1;
                let case = || format!("{} {}", show_dur(d), mode_name(mode));
                let text = match guard(|| match mode {
                    0 => format!("{}", d),
                    1 => format!("{:#}", d),
                    _ => format!("{:?}", d),
                }) {
                    Ok(x) => x,
                    Err(pm) => {
                        r.viol("display_fromstr", &format!("SignedDuration::fmt/{}", panic_sig(&pm)), case(), pm);
                        continue;
                    }
                };
                t.text(&text);
                if let Ok(want) = guard(|| if alt { fr_p.duration_to_string(d) } else { iso_p.duration_to_string(d) }) {
                    if want != text {
                        r.viol("display_fromstr", "SignedDuration::fmt/differs-from-the-default-printer", case(), format!("fmt {:?} printer {:?}", text, want));
                    }
                }
                if alt {
                    read_dur_text(&r, "display_fromstr", "SignedDuration::fmt(friendly)", d, &DEFAULT_CFG, &text, &case, &mut t);
                } else {
                    read_iso_dur_text(&r, "display_fromstr", "SignedDuration::fmt(ISO)", false, d, &text, &case, &mut t);
                }
                let cfg = if alt { &DEFAULT_CFG } else { &ISO_CFG };
                let what = match mode {
                    0 => "Display-FromStr",
                    1 => "Display#-FromStr",
                    _ => "Debug-FromStr",
                };
                match guard(|| text.parse::<SignedDuration>()) {
                    Err(pm) => r.viol("display_fromstr", &format!("SignedDuration::from_str/{}", panic_sig(&pm)), case(), format!("text {:?}: {}", text, pm)),
                    Ok(Err(e)) => {
                        t.rejected += 1;
                        let sig = if alt && d.as_secs() == i64::MIN {
                            "SignedDuration::from_str/rejects-displayed-text:duration-seconds=i64::MIN"
                        } else {
                            "SignedDuration::from_str/rejects-displayed-text"
                        };
                        r.viol("display_fromstr", sig, case(), format!("printed {:?}; parser: {}", text, e))
                    }
                    Ok(Ok(g)) => compare_dur(&r, "display_fromstr", what, d, &g, cfg, &text, &case, &mut t),
                }
            }
        }
        t.report(&r, "display_fromstr");
        r.require(t.read == t.cases, "every displayed text was read independently");
    });

    // a few written-out cases
    for (f, cfg) in [
        ([1i64, 2, 0, 0, 15, 0, 30, 0, 0, 1], DEFAULT_CFG),
        ([0, 0, 0, 15, 2, 59, 15, 123, 0, 0], Cfg { hms: true, ..DEFAULT_CFG }),
        ([0, 0, 0, 0, 1, 1, 3, 0, 0, 0], Cfg { frac: Some(4), ..DEFAULT_CFG }),
        ([0, 0, 0, 0, 0, 0, LIMIT[6], LIMIT[7], LIMIT[8], LIMIT[9]], Cfg { frac: Some(6), ..DEFAULT_CFG }),
    ] {
        let s = mk_span(&f);
        let p = cfg.printer();
        if let Ok(text) = guard(|| p.span_to_string(&s)) {
            let back = guard(|| friendly::SpanParser::new().parse_span(&text).map(|g| show_fields(&fields(&g))).map_err(|e| e.to_string()));
            r.sample(json!({"span": show_fields(&f), "cfg": cfg.show(), "printed": text, "parsed": format!("{:?}", back), "lossy": cfg.lossy()}));
        }
    }
    r.finish();
}
