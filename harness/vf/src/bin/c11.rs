//! C11: Span rounding, balancing, totals and comparison conserve the denoted
//! duration.
//!
//! E1: complete products (span pool) x (references) x (smallest, largest) x
//! (increments) x (9 modes) for `Span::round`; x 10 units for `Span::total`;
//! ordered pairs of a 60-span sub-pool for `compare` / `checked_add` /
//! `checked_sub`; `to_duration` on the whole pool.
//!
//! Oracle (DESIGN.md section 3/C11; metamorphic and exact). With `E = r + span`
//! and `R = r + rounded`. Every such point is computed twice - by jiff's own
//! addition and by the reference addition of `c11/model.rs` (refmodel::cal /
//! refmodel::tz only) - and reconciled (`reconcile`): a disagreement is reported
//! under `helper` as `<op>/value-differs-from-reference-addition` and the
//! reference value is used, so the oracle does not lean on jiff's addition:
//! 1. structure: fields of `rounded` below `smallest` are zero, the `smallest`
//!    *field* is a multiple of the increment, nothing above `largest` (above
//!    `max(smallest, span's own largest unit)` when unset) is non-zero, one sign;
//! 2. `R` and the neighbour `X` one increment of `smallest` away from it on
//!    `E`'s side bracket `E`, and `R` is the one `refmodel::num::pick` selects
//!    for the exact rational position of `E` in `[min(R,X), max(R,X)]`.
//!    Neighbours: time units, and day/week relative to a civil datetime, step
//!    the point itself (civil nanoseconds / instants); month/year are built from
//!    the total month count `12*y + mo +- inc`; day/week relative to a zoned
//!    datetime step the field of `rounded` when the result is still one-signed
//!    and otherwise step `R`'s civil date. So re-balanced ("bubbled") results
//!    need no special case;
//! 3. balancing only (`smallest = ns, inc = 1`): `R == E`;
//! 4. `total(u)`: whole units counted from `r` towards `E` plus the exact
//!    fraction `(E - start_u)/(end_u - start_u)`, compared with the f64 within
//!    2.5 ulp of the exact rational (= 2 ulp of the correctly rounded one);
//! 5. `compare(a, b) == cmp(r + a, r + b)`;
//! 6. without a reference (or with the days-are-24-hours marker) calendar units
//!    (days too without the marker) are refused and everything else is exact
//!    `i128` nanosecond arithmetic (`refmodel::num::round`).
//! Lessons encoded: (a) a `HalfEven` exact tie is judged only when the rounded
//! span has no non-zero unit other than `smallest` (parity on the total and on
//! the field are both defensible otherwise); (b) "multiple of the increment" is
//! demanded of the *field*; whether the *total* is a multiple too is recorded as
//! an outcome only (field-wise rounding of `6w 2d` to 5 days legitimately gives
//! totals that are not multiples of 5); (c) see 2.
//! Time-unit increments must divide the next unit and be smaller than it;
//! calendar units take any positive increment.
//!
//! Signatures are `<operation>/<failure class>:<input class>`. The input class
//! is computed from the input alone (see `mk_case`, `in_class`):
//! * `largest=week,smallest=day,inc>1` (non-zoned references) - F15;
//! * `smallest=week,largest>week,zoned` - W1 (weeks extrapolated from the
//!   length of the first week);
//! * `negative-span,calendar-smallest,exact-tie` - F14 (repaired; kept so a
//!   regression is recognised);
//! * otherwise `<sign>,smallest=<time|d|w|mo|y>,<ref>` with `<ref>` one of
//!   `none`, `marker`, `civil`, `zoned`, `zoned:r+span-on-later-side-of-fold`,
//!   and for time-unit smallest also `zoned:near-a-day-that-is-not-24h`,
//!   `zoned:reference-on-later-side-of-fold`; plus the tags
//!   `,r+span-in-shadow-of-clamped-month-end` (r + n months is a clamped date
//!   and r+span lies less than the clamped-away days after it),
//!   `,whole-units-of-smallest` (positive span, r+span a whole number of
//!   `smallest` units from r) and `,within-1us-of-whole-units-of-smallest`.
//! Neighbours relative to a zoned datetime follow Zoned::checked_add: a
//! non-zero calendar displacement is resolved with "compatible", a zero one is
//! r itself (which matters when r is on the later side of a fold).
//!
//! Coverage extension (see also `c11/ext.rs`):
//! * 1b. balanced: no field of `rounded` holds a whole unit of the next allowed
//!   field where that unit has a fixed length (`unbalanced_unit`); signatures
//!   `Span::round/not-balanced:<unit>-field:<input class>`;
//! * `smallest=week,largest>week,zoned` (W1) is only used as the input class
//!   when the UTC offset changes somewhere within reach of the rounding;
//!   otherwise all weeks are 168 h, W1 cannot apply, and the ordinary class is
//!   used (so such a failure is not absorbed by the W1 findings);
//! * `zoned:next-to-a-civil-day-of-zero-length`: a whole civil day skipped at
//!   the date line makes "one day before r" the instant r itself;
//! * references: month ends that clamp backwards, a mid-day datetime, the
//!   limits of the civil range (section `edge_refs`), a zone without
//!   transitions, midnight of each transition day, synthetic zones;
//! * sections `forms` (every alternative way of building the options must give
//!   the builder form's result), `arith_durations` (SignedDuration /
//!   std::time::Duration operands), `round_increments` (the whole increment
//!   alphabet).

#[path = "c11/ext.rs"]
mod ext;
#[path = "c11/model.rs"]
mod model;

use jiff::civil::{Date, DateTime};
use jiff::tz::AmbiguousOffset;
use jiff::{RoundMode, SignedDuration, Span, SpanRelativeTo, SpanRound, Timestamp, Unit, Zoned};
use rayon::prelude::*;
use refmodel::num::{self, Mode};
use serde_json::json;
use std::cmp::Ordering;
use model::{Madd, ZModel};
use std::collections::BTreeSet;
use std::sync::atomic::{AtomicU64, Ordering as AO};
use std::sync::Arc;
use vf::conv::{self, DAY_NS, NS};
use vf::{guard, panic_sig, Report};

// ---------------------------------------------------------------------------
// units
// ---------------------------------------------------------------------------

/// index = `Unit as usize`: ns us ms s min h d w mo y
type Sp = [i64; 10];
const UN: [&str; 10] = ["ns", "us", "ms", "s", "min", "h", "d", "w", "mo", "y"];
const UNITS: [Unit; 10] = [
    Unit::Nanosecond,
    Unit::Microsecond,
    Unit::Millisecond,
    Unit::Second,
    Unit::Minute,
    Unit::Hour,
    Unit::Day,
    Unit::Week,
    Unit::Month,
    Unit::Year,
];
/// length of the uniform units (day = 24 h, week = 7 days where that applies)
const UNIT_NS: [i128; 8] = [1, 1_000, 1_000_000, NS, 60 * NS, 3_600 * NS, DAY_NS, 7 * DAY_NS];
const LIMITS: [i64; 10] = [
    i64::MAX,
    631_107_417_600_000_000,
    631_107_417_600_000,
    631_107_417_600,
    10_518_456_960,
    175_307_616,
    7_304_484,
    1_043_497,
    239_976,
    19_998,
];
/// size of the next larger unit in this unit, for the time units
const NEXT: [i64; 6] = [1_000, 1_000, 1_000, 60, 60, 24];
const D: usize = 6;
const W: usize = 7;
const MO: usize = 8;
const Y: usize = 9;

const MODES: [(RoundMode, Mode, &str); 9] = [
    (RoundMode::Ceil, Mode::Ceil, "Ceil"),
    (RoundMode::Floor, Mode::Floor, "Floor"),
    (RoundMode::Expand, Mode::Expand, "Expand"),
    (RoundMode::Trunc, Mode::Trunc, "Trunc"),
    (RoundMode::HalfCeil, Mode::HalfCeil, "HalfCeil"),
    (RoundMode::HalfFloor, Mode::HalfFloor, "HalfFloor"),
    (RoundMode::HalfExpand, Mode::HalfExpand, "HalfExpand"),
    (RoundMode::HalfTrunc, Mode::HalfTrunc, "HalfTrunc"),
    (RoundMode::HalfEven, Mode::HalfEven, "HalfEven"),
];

/// increments per smallest unit: {1, 2, a divisor of the next unit, a
/// non-divisor, 100}
fn increments(s: usize) -> [i64; 5] {
    match s {
        0 | 1 | 2 => [1, 2, 500, 7, 100],
        3 | 4 => [1, 2, 30, 7, 100],
        5 => [1, 2, 12, 7, 100],
        D => [1, 2, 7, 5, 100],
        W => [1, 2, 4, 3, 100],
        MO => [1, 2, 3, 5, 100],
        _ => [1, 2, 4, 7, 100],
    }
}

fn time_inc_legal(s: usize, inc: i64) -> bool {
    s >= D || (inc > 0 && inc < NEXT[s] && NEXT[s] % inc == 0)
}

// ---------------------------------------------------------------------------
// spans
// ---------------------------------------------------------------------------

fn try_span(f: &Sp) -> Option<Span> {
    let neg = f.iter().any(|&x| x < 0);
    if neg && f.iter().any(|&x| x > 0) {
        return None;
    }
    for u in 0..10 {
        if f[u].unsigned_abs() > LIMITS[u] as u64 {
            return None;
        }
    }
    let a = |u: usize| f[u].abs();
    let s = Span::new()
        .try_years(a(Y))
        .and_then(|s| s.try_months(a(MO)))
        .and_then(|s| s.try_weeks(a(W)))
        .and_then(|s| s.try_days(a(D)))
        .and_then(|s| s.try_hours(a(5)))
        .and_then(|s| s.try_minutes(a(4)))
        .and_then(|s| s.try_seconds(a(3)))
        .and_then(|s| s.try_milliseconds(a(2)))
        .and_then(|s| s.try_microseconds(a(1)))
        .and_then(|s| s.try_nanoseconds(a(0)))
        .ok()?;
    Some(if neg { s.negate() } else { s })
}

fn fields(s: &Span) -> Sp {
    [
        s.get_nanoseconds(),
        s.get_microseconds(),
        s.get_milliseconds(),
        s.get_seconds(),
        s.get_minutes(),
        s.get_hours() as i64,
        s.get_days() as i64,
        s.get_weeks() as i64,
        s.get_months() as i64,
        s.get_years() as i64,
    ]
}

fn fmt_sp(f: &Sp) -> String {
    let parts: Vec<String> = (0..10).rev().filter(|&u| f[u] != 0).map(|u| format!("{}={}", UN[u], f[u])).collect();
    if parts.is_empty() {
        "{0}".into()
    } else {
        format!("{{{}}}", parts.join(","))
    }
}

fn own_largest(f: &Sp) -> usize {
    (0..10).rev().find(|&u| f[u] != 0).unwrap_or(0)
}

fn sp_sign(f: &Sp) -> i128 {
    if f.iter().any(|&x| x < 0) {
        -1
    } else if f.iter().any(|&x| x > 0) {
        1
    } else {
        0
    }
}

/// exact nanosecond count of the uniform part; `None` if a unit above `allowed` is non-zero
fn inv_ns(f: &Sp, allowed: usize) -> Option<i128> {
    let mut n = 0i128;
    for u in 0..10 {
        if f[u] != 0 {
            if u > allowed || u > W {
                return None;
            }
            n += f[u] as i128 * UNIT_NS[u];
        }
    }
    Some(n)
}

fn carry(u: usize) -> i64 {
    match u {
        0 | 1 | 2 => 1_000,
        3 | 4 => 60,
        5 => 24,
        D => 30,
        W => 4,
        MO => 12,
        _ => 4,
    }
}

/// The span pool. level 0 = quick, 1 = thorough.
fn span_pool(level: u8) -> Vec<Sp> {
    let mut seen = BTreeSet::new();
    let mut out: Vec<Sp> = vec![];
    let mut push = |sp: Sp| {
        if seen.insert(sp) {
            out.push(sp);
        }
        let mut n = sp;
        for x in n.iter_mut() {
            *x = -*x;
        }
        if seen.insert(n) {
            out.push(n);
        }
    };
    let one = |u: usize, x: i64| {
        let mut sp = [0; 10];
        sp[u] = x;
        sp
    };
    push([0; 10]);
    // every single unit at 1, carry-1, carry, carry+1, limit (days: carries 7 and 30)
    for u in (0..10).rev() {
        let c = carry(u);
        let mut vals = vec![1, c - 1, c, c + 1, LIMITS[u]];
        if u == D {
            vals.extend([6, 7, 8]);
        }
        if level == 0 {
            vals.retain(|&x| x != c);
        }
        for x in vals {
            push(one(u, x));
        }
    }
    // exact ties: k big + half of it, k in {0, 1, 2}
    let halves: [(usize, &[(usize, i64)]); 9] = [
        (Y, &[(MO, 6)]),
        (MO, &[(D, 15)]),
        (W, &[(D, 3), (5, 12)]),
        (D, &[(5, 12)]),
        (5, &[(4, 30)]),
        (4, &[(3, 30)]),
        (3, &[(2, 500)]),
        (2, &[(1, 500)]),
        (1, &[(0, 500)]),
    ];
    for (big, rest) in halves {
        for k in [1, 0, 2] {
            let mut sp = [0; 10];
            sp[big] = k;
            for &(u, x) in rest {
                sp[u] = x;
            }
            push(sp);
        }
    }
    // half months of 28/29/31 days, half years of 365/366 days
    for k in [1, 0, 2] {
        for (d, h) in [(15, 12), (14, 0), (14, 12)] {
            let mut sp = [0; 10];
            sp[MO] = k;
            sp[D] = d;
            sp[5] = h;
            push(sp);
        }
    }
    for k in [0, 1] {
        for (d, h) in [(183, 0), (182, 12)] {
            let mut sp = [0; 10];
            sp[Y] = k;
            sp[D] = d;
            sp[5] = h;
            push(sp);
        }
    }
    // all 2-unit mixes "just below a carry"
    let below = |u: usize, with: usize| -> i64 {
        if u == D {
            if with == W {
                6
            } else {
                29
            }
        } else {
            carry(u) - 1
        }
    };
    for w in (1..10).rev() {
        for u in (0..w).rev() {
            if level == 0 && w - u > 2 && !(u == D || w == D) {
                continue;
            }
            let mut sp = [0; 10];
            sp[w] = 1;
            sp[u] = below(u, w);
            push(sp);
            if level > 0 {
                sp[w] = below(w, u);
                push(sp);
            }
        }
    }
    // fixed mixes
    let mixes: [&[usize]; 4] = [&[Y, MO, D], &[MO, D, 5], &[D, 5, 0], &[0, 1, 2, 3, 4, 5, 6, 7, 8, 9]];
    for m in mixes {
        for kind in 0..3 {
            if level == 0 && kind == 1 {
                continue;
            }
            let mut sp = [0; 10];
            for &u in m {
                sp[u] = match kind {
                    0 => 1,
                    1 => below(u, MO),
                    _ => LIMITS[u],
                };
            }
            push(sp);
        }
    }
    // (coverage extension) mixes with a week field between other calendar
    // units, and 30 days (the exact tie between 0 and 2 months from 2024-02-29)
    let more: [&[(usize, i64)]; 5] = [&[(D, 30)], &[(MO, 1), (W, 1), (D, 1)], &[(W, 1), (D, 6), (5, 23)], &[(Y, 1), (MO, 11), (W, 3), (D, 6)], &[(Y, 1), (W, 1)]];
    for e in more {
        let mut sp = [0; 10];
        for &(u, x) in e {
            sp[u] = x;
        }
        push(sp);
    }
    for sp in &out {
        assert!(try_span(sp).is_some(), "pool span constructible: {}", fmt_sp(sp));
    }
    out
}

/// the 60-span sub-pool for compare / arithmetic
fn sub_pool() -> Vec<Sp> {
    let mut out: Vec<Sp> = vec![[0; 10]];
    let mut add = |sp: Sp| {
        if !out.contains(&sp) {
            out.push(sp);
        }
    };
    for u in (0..10).rev() {
        for x in [1, -1] {
            let mut sp = [0; 10];
            sp[u] = x;
            add(sp);
        }
    }
    for u in (0..10).rev() {
        for x in [carry(u), -carry(u)] {
            let mut sp = [0; 10];
            sp[u] = x;
            add(sp);
        }
    }
    // equal-looking durations expressed differently, and near-equal ones
    let extra: [&[(usize, i64)]; 19] = [
        &[(D, 31)],
        &[(D, 29)],
        &[(D, 28)],
        &[(D, 366)],
        &[(D, 365)],
        &[(5, 23)],
        &[(5, 25)],
        &[(5, 167)],
        &[(5, 169)],
        &[(MO, 1), (D, 15)],
        &[(MO, -1), (D, -15)],
        &[(Y, 1), (MO, 6)],
        &[(W, 1), (D, 3), (5, 12)],
        &[(D, 1), (5, 12)],
        &[(D, -1), (0, -1)],
        &[(5, 1), (4, 30)],
        &[(3, 59), (0, 999_999_999)],
        &[(Y, 19_998)],
        &[(Y, -19_998)],
    ];
    for e in extra {
        let mut sp = [0; 10];
        for &(u, x) in e {
            sp[u] = x;
        }
        add(sp);
    }
    assert_eq!(out.len(), 60);
    out
}

// ---------------------------------------------------------------------------
// references
// ---------------------------------------------------------------------------

enum RfK {
    None,
    Marker,
    /// civil datetime; `true` when handed to jiff as a `civil::Date`
    Civil(DateTime, bool),
    /// zoned datetime with the reference model of its time zone
    Zoned(Zoned, Arc<ZModel>),
}

struct Rf {
    k: RfK,
    name: String,
    /// reference far from the range limits (errors are then unexpected for short spans)
    mid: bool,
    /// zoned reference on the later side of a fold
    r_later: bool,
}

/// is this zoned datetime the later of two instants sharing its civil time?
fn later_side_of_fold(z: &Zoned) -> bool {
    match guard(|| z.time_zone().to_ambiguous_zoned(z.datetime()).offset()) {
        Ok(AmbiguousOffset::Fold { before: _, after }) => z.offset() == after,
        _ => false,
    }
}

impl Rf {
    fn rel(&self) -> Option<SpanRelativeTo<'_>> {
        match &self.k {
            RfK::None => None,
            RfK::Marker => Some(SpanRelativeTo::days_are_24_hours()),
            RfK::Civil(dt, true) => Some(SpanRelativeTo::from(dt.date())),
            RfK::Civil(dt, false) => Some(SpanRelativeTo::from(*dt)),
            RfK::Zoned(z, _) => Some(SpanRelativeTo::from(z)),
        }
    }
    /// largest unit usable with this reference
    fn allowed(&self) -> usize {
        match self.k {
            RfK::None => 5,
            RfK::Marker => W,
            _ => Y,
        }
    }
    fn kind(&self) -> &'static str {
        match self.k {
            RfK::None => "none",
            RfK::Marker => "marker",
            RfK::Civil(..) => "civil",
            RfK::Zoned(..) => "zoned",
        }
    }
    /// largest unit that is uniform (exact nanosecond multiples) under this reference
    fn uniform_max(&self) -> usize {
        match self.k {
            RfK::Zoned(..) => 5,
            _ => W,
        }
    }
    fn in_range(&self, p: i128) -> bool {
        match self.k {
            RfK::Civil(..) => p >= conv::dt_min_ns() && p <= conv::dt_max_ns(),
            RfK::Zoned(..) => p >= conv::ts_min_ns() && p <= conv::ts_max_ns(),
            _ => true,
        }
    }
    /// the reference point itself on the line `point` maps to
    fn origin(&self) -> i128 {
        match &self.k {
            RfK::None | RfK::Marker => 0,
            RfK::Civil(dt, _) => conv::dt_civil_ns(*dt),
            RfK::Zoned(z, _) => conv::ts_ns(z.timestamp()),
        }
    }
    /// `r + span` as a point on a line: exact nanoseconds (no reference), civil
    /// nanoseconds, or the instant. Computed twice - with jiff's own addition
    /// and with the reference addition of `model` (refmodel::cal / refmodel::tz)
    /// - and reconciled: a value on which the two disagree is a violation (of
    /// C06/C08, reported here under `helper`) and the model's value is used.
    fn point(&self, r: &Report, f: &Sp) -> Option<i128> {
        match &self.k {
            RfK::None | RfK::Marker => inv_ns(f, self.allowed()),
            RfK::Civil(dt, _) => {
                let span = try_span(f)?;
                let jf = match guard(|| dt.checked_add(span)) {
                    Ok(Ok(x)) => Some(conv::dt_civil_ns(x)),
                    Ok(Err(_)) => None,
                    Err(p) => {
                        r.viol("helper", &format!("DateTime::checked_add/{}", panic_sig(&p)), format!("{} + {}", dt, fmt_sp(f)), p);
                        None
                    }
                };
                reconcile(r, "DateTime::checked_add", jf, model::civil_add(conv::dt_civil_ns(*dt), f), &|| format!("{} + {}", dt, fmt_sp(f)))
            }
            RfK::Zoned(..) => self.zpoint(r, f).map(|z| conv::ts_ns(z.timestamp())),
        }
    }
    fn zpoint(&self, r: &Report, f: &Sp) -> Option<Zoned> {
        let RfK::Zoned(z, zm) = &self.k else { return None };
        zadd(r, z, zm, f)
    }
    fn zmodel(&self) -> Option<&ZModel> {
        match &self.k {
            RfK::Zoned(_, zm) => Some(zm),
            _ => None,
        }
    }
}

/// how often the two additions were compared, and how they related
static ADD_AGREE: AtomicU64 = AtomicU64::new(0);
static ADD_MODEL_UNDEF: AtomicU64 = AtomicU64::new(0);
static ADD_BOTH_ERR: AtomicU64 = AtomicU64::new(0);
static ADD_JIFF_OK_MODEL_ERR: AtomicU64 = AtomicU64::new(0);
static ADD_JIFF_ERR_MODEL_OK: AtomicU64 = AtomicU64::new(0);
static ADD_DIFFER: AtomicU64 = AtomicU64::new(0);

fn reconcile(r: &Report, op: &str, jf: Option<i128>, m: Madd, case: &dyn Fn() -> String) -> Option<i128> {
    match (jf, m) {
        (Some(a), Madd::Ok(b)) if a == b => {
            ADD_AGREE.fetch_add(1, AO::Relaxed);
            Some(a)
        }
        (Some(a), Madd::Ok(b)) => {
            ADD_DIFFER.fetch_add(1, AO::Relaxed);
            r.viol("helper", &format!("{}/value-differs-from-reference-addition", op), case(), format!("jiff {} model {}", conv::fmt_ns(a), conv::fmt_ns(b)));
            Some(b)
        }
        (Some(a), Madd::Undef) => {
            ADD_MODEL_UNDEF.fetch_add(1, AO::Relaxed);
            Some(a)
        }
        // which additions near the range limits must fail is C06/C08's business
        (Some(a), Madd::Err) => {
            ADD_JIFF_OK_MODEL_ERR.fetch_add(1, AO::Relaxed);
            Some(a)
        }
        (None, Madd::Ok(_)) => {
            ADD_JIFF_ERR_MODEL_OK.fetch_add(1, AO::Relaxed);
            None
        }
        (None, _) => {
            ADD_BOTH_ERR.fetch_add(1, AO::Relaxed);
            None
        }
    }
}

fn zadd(r: &Report, z: &Zoned, zm: &ZModel, f: &Sp) -> Option<Zoned> {
    let span = try_span(f)?;
    let jz = match guard(|| z.checked_add(span)) {
        Ok(Ok(x)) => Some(x),
        Ok(Err(_)) => None,
        Err(p) => {
            r.viol("helper", &format!("Zoned::checked_add/{}", panic_sig(&p)), format!("{} + {}", z, fmt_sp(f)), p);
            None
        }
    };
    let jf = jz.as_ref().map(|x| conv::ts_ns(x.timestamp()));
    let m = zm.add(conv::ts_ns(z.timestamp()), f);
    let want = reconcile(r, "Zoned::checked_add", jf, m, &|| format!("{} + {}", z, fmt_sp(f)))?;
    if jf == Some(want) {
        jz
    } else {
        conv::ts_from_ns(want).map(|t| t.to_zoned(z.time_zone().clone()))
    }
}

fn civil_refs(level: u8) -> Vec<Rf> {
    let mut v = vec![
        Rf { k: RfK::None, name: "none".into(), mid: true, r_later: false },
        Rf { k: RfK::Marker, name: "days-are-24h".into(), mid: true, r_later: false },
    ];
    // the last two: month ends that clamp when going *backwards* (-1 month
    // from 03-31 and from 03-30 is the end of February in a leap / common year)
    let all: [(i16, i8, i8); 9] = [(2023, 1, 31), (2024, 1, 31), (2024, 2, 29), (2023, 12, 31), (0, 3, 1), (-9998, 1, 1), (9998, 12, 31), (2024, 3, 31), (2023, 3, 30)];
    for (i, &(y, m, d)) in all.iter().enumerate() {
        if level == 0 && i == 8 {
            continue;
        }
        let date = Date::new(y, m, d).unwrap();
        let mid = (1900..=2100).contains(&y);
        // quick: every date as a Date; the datetimes for four of them
        v.push(Rf { k: RfK::Civil(date.at(0, 0, 0, 0), true), name: format!("date:{}", date), mid, r_later: false });
        if level > 0 || matches!(i, 1 | 3 | 4 | 6) {
            if level > 0 {
                let dt = date.at(0, 0, 0, 0);
                v.push(Rf { k: RfK::Civil(dt, false), name: format!("datetime:{}", dt), mid, r_later: false });
            }
            let dt = date.at(23, 59, 59, 999_999_999);
            v.push(Rf { k: RfK::Civil(dt, false), name: format!("datetime:{}", dt), mid, r_later: false });
        }
    }
    // a datetime in the middle of a day (neither midnight nor the last nanosecond)
    let dt = Date::new(2024, 2, 29).unwrap().at(12, 30, 0, 500_000_000);
    v.push(Rf { k: RfK::Civil(dt, false), name: format!("datetime:{}", dt), mid: true, r_later: false });
    v
}

/// References at the very limits of the civil range. jiff documents that a
/// civil reference there may be refused (it is anchored as a UTC instant and the
/// timestamp range is narrower); what is demanded is the absence of panics and,
/// when a result is returned, the same oracle as everywhere else.
fn edge_refs() -> Vec<Rf> {
    let mut v = vec![];
    for date in [Date::MIN, Date::MAX, Date::new(-9999, 1, 2).unwrap(), Date::new(9999, 12, 30).unwrap()] {
        v.push(Rf { k: RfK::Civil(date.at(0, 0, 0, 0), true), name: format!("date:{}", date), mid: false, r_later: false });
    }
    for dt in [DateTime::MIN, DateTime::MAX] {
        v.push(Rf { k: RfK::Civil(dt, false), name: format!("datetime:{}", dt), mid: false, r_later: false });
    }
    v
}

/// Zoned references: per zone the latest recorded gap and fold (1900..2025, not
/// within 3 days of New Year: F7), each at {one civil day before / after the
/// middle of the window, T-1ns, T, T+1ns}; for folds also both instants that
/// read the middle of the window.
fn zoned_refs(r: &Report, level: u8) -> Vec<Rf> {
    let quick_zones = ["America/New_York", "Australia/Lord_Howe", "America/Sao_Paulo", "Europe/London"];
    let lo = refmodel::cal::days_from_civil(1900, 1, 1) * 86_400;
    let hi = refmodel::cal::days_from_civil(2025, 1, 1) * 86_400;
    let mut out = vec![];
    let mut n_gap = 0;
    let mut n_fold = 0;
    // synthetic zones (zic-compiled): a whole civil day skipped / repeated at
    // the date line, a 30-minute DST shift, a DST shift of 20 min 15 s
    let synth_zones: &[&str] = if level == 0 { &["Synth/HalfHour"] } else { &["Synth/HalfHour", "Synth/SkipDay", "Synth/RepeatDay", "Synth/SubMinute"] };
    let mut sources = vf::zones::rep();
    sources.extend(vf::zones::synth("fat").into_iter().filter(|z| synth_zones.contains(&z.name.as_str())));
    let mut n_synth = 0;
    let mut n_fixed = 0;
    let mut n_midnight = 0;
    for src in sources {
        let synthetic = src.name.starts_with("Synth/");
        if level == 0 && !synthetic && src.name != "UTC" && !quick_zones.contains(&src.name.as_str()) {
            continue;
        }
        if synthetic {
            n_synth += 1;
        }
        let pair = match vf::zones::load_pair(&src) {
            Ok(p) => p,
            Err(e) => {
                r.note(format!("zone {} not loadable: {}", src.name, e));
                continue;
            }
        };
        let zm = Arc::new(ZModel::new(pair.model.clone(), conv::ts_min_ns(), conv::ts_max_ns()));
        let z = &pair.model;
        let off = |k: usize| z.infos[z.pieces[k].info as usize].utoff as i64;
        let ok = |k: usize| {
            let p = &z.pieces[k];
            if !(p.recorded && p.start >= lo && p.start < hi) {
                return false;
            }
            let (_, m, d) = refmodel::cal::civil_from_days(p.start.div_euclid(86_400));
            // (the synthetic zones used here have no rule near New Year)
            synthetic || !((m == 12 && d >= 28) || (m == 1 && d <= 4))
        };
        if z.changing().is_empty() {
            // a zone without any transition: every day is 24 hours long
            let x = (refmodel::cal::days_from_civil(2024, 2, 29) * 86_400 + 12 * 3_600) as i128 * NS;
            if let Some(ts) = conv::ts_from_ns(x) {
                out.push(Rf { name: format!("zoned:{}@{}", pair.name, conv::fmt_ns(x)), k: RfK::Zoned(ts.to_zoned(pair.jiff.clone()), zm.clone()), mid: true, r_later: false });
                n_fixed += 1;
            }
        }
        let ks = z.changing();
        let gap = ks.iter().rev().copied().find(|&k| ok(k) && off(k) > off(k - 1));
        let fold = ks.iter().rev().copied().find(|&k| ok(k) && off(k) < off(k - 1));
        for (k, is_gap) in [(gap, true), (fold, false)] {
            let Some(k) = k else { continue };
            if is_gap {
                n_gap += 1;
            } else {
                n_fold += 1;
            }
            let t = z.pieces[k].start;
            let (ob, oa) = (off(k - 1), off(k));
            let w = (oa - ob).abs();
            let mid_civil = t + ob.min(oa) + w / 2;
            let tn = t as i128 * NS;
            let mut push_ts = |x: i128| {
                if let Some(ts) = conv::ts_from_ns(x) {
                    let zd = ts.to_zoned(pair.jiff.clone());
                    let r_later = later_side_of_fold(&zd);
                    out.push(Rf { name: format!("zoned:{}@{}", pair.name, conv::fmt_ns(x)), k: RfK::Zoned(zd, zm.clone()), mid: true, r_later });
                }
            };
            for dd in [-1i64, 1] {
                if let Some(dt) = conv::dt_from_civil_ns((mid_civil + dd * 86_400) as i128 * NS) {
                    if let Ok(Ok(zd)) = guard(|| pair.jiff.to_zoned(dt)) {
                        push_ts(conv::ts_ns(zd.timestamp()));
                    }
                }
            }
            for x in [tn - 1, tn, tn + 1] {
                push_ts(x);
            }
            // 00:00 of the civil day the transition happens on (the old
            // offset's reading): a reference whose first day is 23 / 25 / ...
            // hours long without the reference itself touching the window
            let day0 = (t + ob).div_euclid(86_400) * 86_400;
            if day0 - ob < t - 1 {
                push_ts((day0 - ob) as i128 * NS);
                n_midnight += 1;
            }
            if !is_gap {
                push_ts(tn - (w / 2) as i128 * NS);
                push_ts(tn + (w / 2) as i128 * NS);
            }
        }
    }
    r.count("zoned_ref_gaps", n_gap);
    r.count("zoned_ref_folds", n_fold);
    r.count("zoned_ref_zones_synthetic", n_synth);
    r.count("zoned_ref_in_zone_without_transitions", n_fixed);
    r.count("zoned_ref_midnight_of_transition_day", n_midnight);
    out
}

// ---------------------------------------------------------------------------
// counters
// ---------------------------------------------------------------------------

/// outcome classes the non-vacuity requirements read back
const REQ: &[&str] = &[
    "ok",
    "exact",
    "moved",
    "tie_right",
    "refused_as_required",
    "ok_variable_unit",
    "ok_fractional",
    "compare_less",
    "compare_equal",
    "compare_greater",
    "arith_ok",
    "error_out_of_range",
    "balanced",
    "week_above_week_all_weeks_168h",
    "week_above_week_offset_changes_within_reach",
    "form_same",
    "round_builder_ok",
    "round_builder_err",
    "ok_nonzero_duration",
    "ok_calendar_a",
    "legal_increment",
    "illegal_increment",
];

#[derive(Default)]
struct Loc {
    c: std::collections::BTreeMap<&'static str, u64>,
}
impl Loc {
    fn add(&mut self, k: &'static str) {
        *self.c.entry(k).or_insert(0) += 1;
    }
    fn flush(self, r: &Report, prefix: &str) {
        for (k, v) in self.c {
            r.outcome(&format!("{}{}", prefix, k), v);
            if REQ.contains(&k) {
                r.count(&format!("{}{}", prefix, k), v);
            }
        }
    }
}

// ---------------------------------------------------------------------------
// round
// ---------------------------------------------------------------------------

struct RoundCase<'a> {
    rf: &'a Rf,
    f: &'a Sp,
    span: Span,
    own: usize,
    sign: i128,
    origin: i128,
    /// E = r + span
    e: Option<i128>,
    /// input class of the reference / end point (see `mk_case`)
    zclass: &'static str,
    /// reference or end point on the later side of a fold (Zoned::until defects F8/F9)
    zfold: bool,
    /// E is a whole number of units u (u = d, w, mo, y) away from r
    whole: [bool; 10],
    /// E is within a microsecond of, but not at, a whole number of units u from r
    near_whole: [bool; 10],
    /// E lies in the "shadow" of a clamped month end: r + n months is a clamped
    /// date (day-of-month c days smaller than r's) and E is less than c days
    /// after it, so "n months and a bit" and "n-1 months and 30-odd days" are
    /// both readings of the same distance
    shadow: bool,
}

fn case_str(sec: &str, c: &RoundCase, s: usize, l: Option<usize>, inc: i64, mode: &str) -> String {
    format!(
        "{} span={} ref={} smallest={} largest={} inc={} mode={}",
        sec,
        fmt_sp(c.f),
        c.rf.name,
        UN[s],
        l.map(|l| UN[l]).unwrap_or("unset"),
        inc,
        mode
    )
}

/// why must this rounding be refused (under the statement and the documentation)?
fn must_err(rf: &Rf, own: usize, s: usize, l: Option<usize>, inc: i64) -> Option<&'static str> {
    if inc <= 0 && s < D {
        return Some("increment<=0");
    }
    if !time_inc_legal(s, inc) {
        return Some("time-unit-increment-not-a-proper-divisor");
    }
    if let Some(l) = l {
        if l < s {
            return Some("largest<smallest");
        }
    }
    let maxu = own.max(s).max(l.unwrap_or(0));
    match rf.k {
        RfK::None if maxu >= D => Some("day-or-calendar-unit-without-reference"),
        RfK::Marker if maxu >= MO => Some("month-or-year-with-marker-only"),
        _ => None,
    }
}

/// `smallest = week`, `largest > week`, zoned: does the UTC offset stay the same
/// everywhere within reach of the rounding (from r to r+span, widened by one
/// increment and two weeks on both sides)? Then every week involved is 168
/// hours long.
fn w1_all_weeks_uniform(c: &RoundCase, inc: i64) -> bool {
    match (c.rf.zmodel(), c.e) {
        (Some(zm), Some(e)) => {
            let reach = (inc as i128 + 2) * 7 * DAY_NS;
            zm.offset_constant_in(c.origin.min(e) - reach, c.origin.max(e) + reach)
        }
        _ => false,
    }
}

/// input class shared by the signatures of one rounding
fn in_class(c: &RoundCase, s: usize, eff_l: usize, inc: i64) -> String {
    let zoned = matches!(c.rf.k, RfK::Zoned(..));
    if !zoned && eff_l == W && s == D && inc > 1 {
        return "largest=week,smallest=day,inc>1".into();
    }
    if zoned && s == W && eff_l > W {
        // weeks are not uniform relative to a zoned datetime and the balanced
        // form (months and days) has no week field to start from (W1). That
        // mechanism needs weeks of different lengths: when the UTC offset does
        // not change anywhere within reach of the rounding (from r to r+span,
        // widened by one increment and two weeks on both sides) every week
        // involved is 168 hours long, W1 cannot explain a failure, and the
        // case is classified like any other.
        if !w1_all_weeks_uniform(c, inc) {
            return "smallest=week,largest>week,zoned".into();
        }
    }
    let sc = if s < D { "time" } else { UN[s] };
    // the length of the days near r+span only matters to the time-unit path
    let zc = if s >= D && c.zclass.starts_with("zoned") && c.zclass != "zoned:r+span-on-later-side-of-fold" && c.zclass != "zoned:next-to-a-civil-day-of-zero-length" { "zoned" } else { c.zclass };
    let shadow = c.shadow && eff_l >= MO && s <= MO;
    // the clamped-month-end shadow says more than "the reference is the later
    // instant of a fold" (which on its own explains no known finding)
    let zc = if shadow && zc == "zoned:reference-on-later-side-of-fold" { "zoned" } else { zc };
    let mut out = format!("{},smallest={},{}", if c.sign < 0 { "negative-span" } else { "positive-span" }, sc, zc);
    if shadow {
        out.push_str(",r+span-in-shadow-of-clamped-month-end");
    }
    if c.sign > 0 && s >= D && s != W && c.whole[s] {
        out.push_str(",whole-units-of-smallest");
    }
    if s >= D && c.near_whole[s] && !out.contains("shadow") && zc != "zoned:r+span-on-later-side-of-fold" && zc != "zoned:next-to-a-civil-day-of-zero-length" {
        out.push_str(",within-1us-of-whole-units-of-smallest");
    }
    out
}

/// "Balanced" (the documentation of `Span::round`: "returns a new span that is
/// balanced and rounded"; the statement: "balancing a span to a different
/// largest unit"), in the conservative reading every interpretation shares: a
/// field below the largest allowed unit never holds a whole unit of the next
/// allowed field when that unit has a fixed length - sub-second fields < 1000,
/// seconds and minutes < 60, hours < 24 unless days vary (zoned), days < 7
/// under weeks, months < 12 under years - and days <= 31 under months/years.
/// The day and month bounds are only demanded when the rounding step is a
/// single unit (an increment of 100 days may legitimately stay as days).
/// Weeks are exempt (jiff documents that it only balances into weeks when the
/// largest unit is weeks, and `smallest = week` keeps what it rounded).
fn unbalanced_unit(rf: &Rf, g: &Sp, s: usize, eff_l: usize, inc: i64) -> Option<usize> {
    let zoned = matches!(rf.k, RfK::Zoned(..));
    for u in 0..5 {
        if eff_l > u && g[u].unsigned_abs() >= NEXT[u] as u64 {
            return Some(u);
        }
    }
    if eff_l >= D && !zoned && g[5].unsigned_abs() >= 24 {
        return Some(5);
    }
    if eff_l == W && g[D].unsigned_abs() >= 7 {
        return Some(D);
    }
    if eff_l >= MO && (s < D || (s == D && inc == 1)) && g[D].unsigned_abs() > 31 {
        return Some(D);
    }
    if eff_l == Y && (s < MO || (s == MO && inc == 1)) && g[MO].unsigned_abs() >= 12 {
        return Some(MO);
    }
    None
}

fn round_all(r: &Report, sec: &str, c: &RoundCase, lc: &mut Loc) -> u64 {
    let mut n = 0u64;
    for s in 0..10 {
        // largest: unset, then every l >= s; the reversed pairs (l < s) once
        let mut ls: Vec<Option<usize>> = vec![None];
        ls.extend((s..10).map(Some));
        for l in ls {
            for inc in increments(s) {
                for m in 0..9 {
                    n += 1;
                    round_one(r, sec, c, s, l, inc, m, lc);
                }
            }
        }
        for l in 0..s {
            n += 1;
            round_one(r, sec, c, s, Some(l), 1, 6, lc);
        }
    }
    n
}

fn round_one(r: &Report, sec: &str, c: &RoundCase, s: usize, l: Option<usize>, inc: i64, m: usize, lc: &mut Loc) {
    let (jmode, mmode, mname) = MODES[m];
    let rf = c.rf;
    let got = guard(|| {
        let mut cfg = SpanRound::new().smallest(UNITS[s]).increment(inc).mode(jmode);
        if let Some(l) = l {
            cfg = cfg.largest(UNITS[l]);
        }
        if let Some(rel) = rf.rel() {
            cfg = cfg.relative(rel);
        }
        c.span.round(cfg)
    });
    let eff_l = l.unwrap_or(s.max(c.own));
    let cs = || case_str(sec, c, s, l, inc, mname);
    let got = match got {
        Err(p) => {
            lc.add("panic");
            let cls = if s >= D && inc <= 0 {
                format!("calendar-unit,{}", if inc == 0 { "inc=0" } else { "inc<0" })
            } else {
                in_class(c, s, eff_l, inc)
            };
            // a non-positive increment panics with a different message in the
            // two build flavours (plain division by zero / ranged-integer check)
            let what = if s >= D && inc <= 0 { "panic".to_string() } else { panic_sig(&p) };
            r.viol(sec, &format!("Span::round/{}:{}", what, cls), cs(), p);
            return;
        }
        Ok(g) => g,
    };
    if let Some(why) = must_err(rf, c.own, s, l, inc) {
        match got {
            Err(_) => lc.add("refused_as_required"),
            Ok(x) => {
                lc.add("accepted_but_must_refuse");
                r.viol(sec, &format!("Span::round/accepted:{}", why), cs(), format!("jiff Ok({:?}) model: must be an error ({})", fields(&x), why));
            }
        }
        return;
    }
    if inc <= 0 {
        // calendar unit with a non-positive increment: nothing is stated beyond "no panic"
        lc.add(if got.is_ok() { "calendar_inc<=0_accepted" } else { "calendar_inc<=0_refused" });
        return;
    }
    let rounded = match got {
        Ok(x) => x,
        Err(e) => {
            // an error is legitimate when something does not fit; it is
            // unexpected for a short span in the middle of the range
            let short = match c.e {
                Some(e) => (e - c.origin).abs() < (1i128 << 62),
                None => false,
            };
            if short && rf.mid && inc <= 1_000 && c.f.iter().enumerate().all(|(u, &x)| x.unsigned_abs() <= (LIMITS[u] / 4) as u64) {
                lc.add("unexpected_error");
                r.viol(sec, &format!("Span::round/unexpected-error:{}", in_class(c, s, eff_l, inc)), cs(), format!("jiff Err({}) model: representable (|E-r| < 2^62 ns, reference mid-range)", e));
            } else {
                lc.add("error_out_of_range");
            }
            return;
        }
    };
    lc.add("ok");
    if s == W && eff_l > W && matches!(rf.k, RfK::Zoned(..)) {
        lc.add(if w1_all_weeks_uniform(c, inc) { "week_above_week_all_weeks_168h" } else { "week_above_week_offset_changes_within_reach" });
    }
    let g = fields(&rounded);
    // (1) structure
    let mut structure_ok = true;
    if (0..s).any(|u| g[u] != 0) {
        structure_ok = false;
        r.viol(sec, &format!("Span::round/units-below-smallest-nonzero:{}", in_class(c, s, eff_l, inc)), cs(), format!("jiff {}", fmt_sp(&g)));
    }
    if (eff_l + 1..10).any(|u| g[u] != 0) {
        structure_ok = false;
        r.viol(sec, &format!("Span::round/unit-above-largest-nonzero:{}", in_class(c, s, eff_l, inc)), cs(), format!("jiff {} (largest allowed {})", fmt_sp(&g), UN[eff_l]));
    }
    if g[s] % inc != 0 {
        structure_ok = false;
        r.viol(sec, &format!("Span::round/smallest-field-not-multiple:{}", in_class(c, s, eff_l, inc)), cs(), format!("jiff {}: {} field {} is not a multiple of {}", fmt_sp(&g), UN[s], g[s], inc));
    }
    if g.iter().any(|&x| x < 0) && g.iter().any(|&x| x > 0) {
        structure_ok = false;
        r.viol(sec, &format!("Span::round/mixed-signs:{}", in_class(c, s, eff_l, inc)), cs(), format!("jiff {}", fmt_sp(&g)));
    }
    // (1b) balanced: no field holds a whole unit of the next allowed field
    if structure_ok {
        match unbalanced_unit(rf, &g, s, eff_l, inc) {
            Some(u) => {
                lc.add("not_balanced");
                // r+span a whole number of `smallest` units from r: tagged for both signs here
                let mut cls = in_class(c, s, eff_l, inc);
                if s >= D && c.whole[s] && !cls.contains("whole-units-of-smallest") {
                    cls.push_str(",whole-units-of-smallest");
                }
                r.viol(sec, &format!("Span::round/not-balanced:{}-field:{}", UN[u], cls), cs(), format!("jiff {} (largest allowed {})", fmt_sp(&g), UN[eff_l]));
            }
            None => lc.add("balanced"),
        }
    }
    // lesson (b): the total, recorded only
    if structure_ok && own_largest(&g) <= rf.uniform_max() && s <= W {
        if let Some(t) = inv_ns(&g, W) {
            if t % (inc as i128 * UNIT_NS[s]) != 0 {
                lc.add("total_not_multiple_while_field_is");
            }
        }
    }
    let single = (0..10).all(|u| u == s || g[u] == 0) && g[s] % inc == 0;
    match rf.k {
        RfK::None | RfK::Marker => {
            // (6) exact nanosecond counts
            let n = c.e.expect("invariant span");
            let step = inc as i128 * UNIT_NS[s];
            let want = num::round(n, step, mmode);
            let Some(gn) = inv_ns(&g, W) else {
                r.viol(sec, &format!("Span::round/calendar-unit-in-result:{}", in_class(c, s, eff_l, inc)), cs(), format!("jiff {}", fmt_sp(&g)));
                return;
            };
            let tie = 2 * n.rem_euclid(step) == step;
            if tie {
                lc.add("tie");
            }
            if s == 0 && inc == 1 && gn != n {
                r.viol(sec, &format!("Span::round/balancing-changes-duration:{}", in_class(c, s, eff_l, inc)), cs(), format!("jiff {} = {} ns, span = {} ns", fmt_sp(&g), gn, n));
                return;
            }
            if gn == want {
                lc.add(if gn == n { "exact" } else { "moved" });
                return;
            }
            let lo = n.div_euclid(step) * step;
            if tie && mmode == Mode::HalfEven && !single && (gn == lo || gn == lo + step) {
                lc.add("halfeven_tie_ambiguous_not_judged");
                return;
            }
            let t = if tie { "exact-tie" } else { "off-tie" };
            r.viol(
                sec,
                &format!("Span::round/wrong-multiple:{},{}", in_class(c, s, eff_l, inc), t),
                cs(),
                format!("jiff {} = {} ns; model {} ns (span = {} ns, step {} ns)", fmt_sp(&g), gn, want, n, step),
            );
        }
        _ => {
            let Some(e) = c.e else {
                lc.add("ok_though_r_plus_span_unrepresentable");
                return;
            };
            check_neighbour(r, sec, c, s, eff_l, inc, mmode, &g, e, single, &cs, lc);
        }
    }
}

/// `R`'s neighbour one increment of `smallest` away in direction `dir`
fn neighbour(r: &Report, rf: &Rf, rz: Option<&Zoned>, rp: i128, g: &Sp, s: usize, inc: i64, dir: i128) -> Option<i128> {
    let zoned = matches!(rf.k, RfK::Zoned(..));
    if s <= 5 || (!zoned && s <= W) {
        let x = rp + dir * inc as i128 * UNIT_NS[s];
        return rf.in_range(x).then_some(x);
    }
    if s >= MO {
        if (0..MO).any(|u| g[u] != 0) {
            return None;
        }
        let m = 12 * g[Y] as i128 + g[MO] as i128 + dir * inc as i128 * if s == Y { 12 } else { 1 };
        if m.abs() > LIMITS[MO] as i128 {
            return None;
        }
        let mut f = [0; 10];
        f[MO] = m as i64;
        return rf.point(r, &f);
    }
    // day / week relative to a zoned datetime: step the *civil* point
    // civil(r) + calendar part of `rounded` by whole days and resolve it again
    // (what `r + span'` means for the span' with the stepped field; written
    // this way it also covers a span' that would need mixed signs)
    let _ = (rz, rp);
    let RfK::Zoned(z, zm) = &rf.k else { return None };
    if (0..D).any(|u| g[u] != 0) {
        return None;
    }
    let cal = try_span(g)?;
    let step = (dir * inc as i128 * if s == W { 7 } else { 1 }) as i64;
    if step.unsigned_abs() > LIMITS[D] as u64 {
        return None;
    }
    // Zoned::checked_add re-resolves the civil result with "compatible"
    // whenever calendar units are involved (documented, C06) - except that
    // adding nothing is r itself: the neighbour whose civil datetime is r's
    // own is r, not the other instant of a fold r may lie in.
    let got = guard(|| -> Result<Zoned, jiff::Error> {
        let dt = z.datetime().checked_add(cal)?.checked_add(Span::new().try_days(step)?)?;
        if dt == z.datetime() {
            return Ok(z.clone());
        }
        z.time_zone().to_zoned(dt)
    });
    let jf = match got {
        Ok(Ok(x)) => Some(conv::ts_ns(x.timestamp())),
        Ok(Err(_)) => None,
        Err(p) => {
            r.viol("helper", &format!("civil-step/{}", panic_sig(&p)), format!("{} + {} step {}", z, fmt_sp(g), step), p);
            None
        }
    };
    // the same neighbour from the reference addition
    let m = zm.add_stepped(conv::ts_ns(z.timestamp()), g, step);
    reconcile(r, "civil-step", jf, m, &|| format!("{} + {} step {}", z, fmt_sp(g), step))
}

#[allow(clippy::too_many_arguments)]
fn check_neighbour(r: &Report, sec: &str, c: &RoundCase, s: usize, eff_l: usize, inc: i64, mode: Mode, g: &Sp, e: i128, single: bool, cs: &dyn Fn() -> String, lc: &mut Loc) {
    let rf = c.rf;
    let rz = rf.zpoint(r, g);
    let rp = match &rf.k {
        RfK::Zoned(..) => rz.as_ref().map(|z| conv::ts_ns(z.timestamp())),
        _ => rf.point(r, g),
    };
    let Some(rp) = rp else {
        lc.add("r_plus_rounded_unrepresentable");
        return;
    };
    let cls = in_class(c, s, eff_l, inc);
    if rp == e {
        lc.add("exact");
        return;
    }
    if s == 0 && inc == 1 {
        r.viol(sec, &format!("Span::round/balancing-moves-endpoint:{}", cls), cs(), format!("jiff {}: r+rounded = {} but r+span = {}", fmt_sp(g), conv::fmt_ns(rp), conv::fmt_ns(e)));
        return;
    }
    let dir: i128 = if e > rp { 1 } else { -1 };
    let Some(x) = neighbour(r, rf, rz.as_ref(), rp, g, s, inc, dir) else {
        lc.add("neighbour_unrepresentable");
        return;
    };
    if (x - rp) * dir <= 0 {
        lc.add("neighbour_not_ordered");
        r.viol(sec, &format!("Span::round/neighbours-not-ordered:{}", cls), cs(), format!("jiff {}: R {} neighbour {} dir {}", fmt_sp(g), conv::fmt_ns(rp), conv::fmt_ns(x), dir));
        return;
    }
    if (x - e) * dir < 0 {
        lc.add("not_adjacent");
        r.viol(
            sec,
            &format!("Span::round/more-than-one-increment-away:{}", cls),
            cs(),
            format!("jiff {}: r+rounded = {}, r+span = {}, next reachable towards it = {} (still short of r+span)", fmt_sp(g), conv::fmt_ns(rp), conv::fmt_ns(e), conv::fmt_ns(x)),
        );
        return;
    }
    if x == e {
        lc.add("reachable_moved");
        r.viol(
            sec,
            &format!("Span::round/reachable-multiple-moved:{}", cls),
            cs(),
            format!("jiff {}: r+rounded = {}, but r+span = {} is itself a reachable multiple", fmt_sp(g), conv::fmt_ns(rp), conv::fmt_ns(e)),
        );
        return;
    }
    let (a, b) = if rp < x { (rp, x) } else { (x, rp) };
    let (nu, de) = (e - a, b - a);
    let tie = 2 * nu == de;
    if tie {
        lc.add("tie");
    }
    let a_even = if single {
        let kr = (g[s] / inc) as i128;
        let ka = if a == rp { kr } else { kr + dir };
        ka.rem_euclid(2) == 0
    } else {
        if tie && mode == Mode::HalfEven {
            lc.add("halfeven_tie_ambiguous_not_judged");
            return;
        }
        true
    };
    let want = if num::pick(nu, de, c.sign < 0, a_even, mode) == 0 { a } else { b };
    if want == rp {
        lc.add(if tie { "tie_right" } else { "moved" });
        return;
    }
    lc.add("wrong_neighbour");
    let t = if tie { "exact-tie" } else { "off-tie" };
    let w1 = matches!(rf.k, RfK::Zoned(..)) && s == W && eff_l > W;
    let f14 = c.sign < 0 && s >= D && tie && !w1;
    let f15 = !matches!(rf.k, RfK::Zoned(..)) && eff_l == W && s == D && inc > 1;
    let class = match (f14, f15) {
        (_, true) => format!("{},{}", cls, t),
        (true, false) => "negative-span,calendar-smallest,exact-tie".to_string(),
        _ => cls,
    };
    r.viol(
        sec,
        &format!("Span::round/wrong-neighbour:{}", class),
        cs(),
        format!(
            "jiff {}: r+rounded = {}; r+span = {} lies {}/{} of the way from {} to {}; mode selects {}",
            fmt_sp(g),
            conv::fmt_ns(rp),
            conv::fmt_ns(e),
            nu,
            de,
            conv::fmt_ns(a),
            conv::fmt_ns(b),
            conv::fmt_ns(want)
        ),
    );
}

/// the civil date of `r + f`
fn add_date(r: &Report, rf: &Rf, f: &Sp) -> Option<Date> {
    match &rf.k {
        RfK::Civil(dt, _) => {
            let span = try_span(f)?;
            match guard(|| dt.checked_add(span)) {
                Ok(Ok(x)) => Some(x.date()),
                _ => None,
            }
        }
        RfK::Zoned(..) => rf.zpoint(r, f).map(|z| z.date()),
        _ => None,
    }
}

/// Everything about one (reference, span) that the signatures are derived from.
fn mk_case<'a>(r: &Report, rf: &'a Rf, f: &'a Sp) -> RoundCase<'a> {
    let span = try_span(f).unwrap();
    let origin = rf.origin();
    let sign = sp_sign(f);
    let mut zfold = false;
    let mut whole = [false; 10];
    let mut near_whole = [false; 10];
    let mut shadow = false;
    let (e, zclass) = match &rf.k {
        RfK::Zoned(z0, _) => {
            let ez = rf.zpoint(r, f);
            let e = ez.as_ref().map(|z| conv::ts_ns(z.timestamp()));
            let e_later = ez.as_ref().map(later_side_of_fold).unwrap_or(false);
            zfold = rf.r_later || e_later;
            // is the civil day that contains E (counted in whole days from r), or the one before it, not 24 hours long?
            let mut irregular = false;
            // ... or even of zero length (a whole civil day skipped at the date
            // line: "one day" before / after it is the same instant)
            let mut zero_day = false;
            if let Some(e) = e {
                if let Some((p, q)) = total_model(r, rf, D, origin, e) {
                    let n = p.abs() / q;
                    let s = if p < 0 { -1 } else { 1 };
                    let pt = |k: i128| {
                        let mut g = [0; 10];
                        g[D] = (s * k) as i64;
                        rf.point(r, &g)
                    };
                    for k in [n - 1, n] {
                        if k >= 0 {
                            if let (Some(a), Some(b)) = (pt(k), pt(k + 1)) {
                                irregular |= (b - a).abs() != DAY_NS;
                                zero_day |= a == b;
                            }
                        }
                    }
                }
            }
            let _ = z0;
            // civil order and instant order differ only inside a fold, so
            // the later side of a fold at r+span comes first
            let zc = if zero_day {
                "zoned:next-to-a-civil-day-of-zero-length"
            } else if e_later {
                "zoned:r+span-on-later-side-of-fold"
            } else if irregular {
                "zoned:near-a-day-that-is-not-24h"
            } else if rf.r_later {
                "zoned:reference-on-later-side-of-fold"
            } else {
                "zoned"
            };
            (e, zc)
        }
        _ => (rf.point(r, f), rf.kind()),
    };
    if let (Some(e), RfK::Civil(..) | RfK::Zoned(..)) = (e, &rf.k) {
        for u in D..=Y {
            if let Some((p, q)) = total_model(r, rf, u, origin, e) {
                whole[u] = p % q == 0;
                let rem = p.abs() % q;
                near_whole[u] = rem != 0 && (rem <= 1_000 || q - rem <= 1_000);
                if u == MO && sign > 0 && p / q >= 1 {
                    let n = p / q;
                    let mut g = [0; 10];
                    g[MO] = n as i64;
                    let rday = match &rf.k {
                        RfK::Civil(dt, _) => dt.day(),
                        RfK::Zoned(z, _) => z.day(),
                        _ => 0,
                    };
                    if let Some(d) = add_date(r, rf, &g) {
                        if d.day() < rday {
                            g[D] = (rday - d.day()) as i64;
                            shadow = rf.point(r, &g).map(|hi| e < hi).unwrap_or(false);
                        }
                    }
                }
            }
        }
    }
    RoundCase { rf, f, span, own: own_largest(f), sign, origin, e, zclass, zfold, whole, near_whole, shadow }
}

/// replay: only the (reference, span) named in `--only-case` needs to be run
fn wanted(r: &Report, rf: &Rf, f: &Sp) -> bool {
    match &r.only_case {
        Some(c) => c.contains(&format!("span={} ref={}", fmt_sp(f), rf.name)),
        None => true,
    }
}

fn section_round(r: &Report, sec: &str, refs: &[Rf], pool: &[Sp]) {
    let items: Vec<(&Rf, &Sp)> = refs.iter().flat_map(|rf| pool.iter().map(move |f| (rf, f))).collect();
    items.par_iter().for_each(|&(rf, f)| {
        if !wanted(r, rf, f) {
            return;
        }
        let c = mk_case(r, rf, f);
        let mut lc = Loc::default();
        let n = round_all(r, sec, &c, &mut lc);
        r.add_states(1);
        r.add_transitions(n);
        r.add_validated(n);
        lc.flush(r, &format!("{}:", sec));
    });
}

/// increments nobody may accept for time units (0, negative, the next unit's
/// size, i64::MAX); for calendar units only "no panic" is demanded of <= 0
fn section_bad_increment(r: &Report, refs: &[&Rf], pool: &[Sp]) {
    let sec = "round_bad_increment";
    let items: Vec<(&Rf, &Sp)> = refs.iter().flat_map(|rf| pool.iter().map(move |f| (*rf, f))).collect();
    items.par_iter().for_each(|&(rf, f)| {
        if !wanted(r, rf, f) {
            return;
        }
        let c = mk_case(r, rf, f);
        let mut lc = Loc::default();
        let mut n = 0;
        for s in 0..10 {
            let mut incs = vec![0, -1, i64::MIN, i64::MAX];
            if s < D {
                incs.push(NEXT[s]);
            }
            for inc in incs {
                for l in [None, Some(Y.min(rf.allowed()).max(s))] {
                    for m in [1, 6, 8] {
                        n += 1;
                        round_one(r, sec, &c, s, l, inc, m, &mut lc);
                    }
                }
            }
        }
        r.add_states(1);
        r.add_transitions(n);
        r.add_validated(n);
        lc.flush(r, "round_bad_increment:");
    });
}

// ---------------------------------------------------------------------------
// total
// ---------------------------------------------------------------------------

/// |got - p/q| <= 2.5 ulp(got), all in exact integer arithmetic
fn f64_close(got: f64, p: i128, q: i128) -> bool {
    assert!(q > 0);
    if !got.is_finite() {
        return false;
    }
    if p == 0 {
        return got == 0.0;
    }
    if got == 0.0 {
        return false;
    }
    let Some((m, e)) = num::f64_decompose(got) else { return false };
    let inner = || -> Option<bool> {
        let two_mq = m.checked_mul(2)?.checked_mul(q)?;
        if e >= 0 {
            if e > 100 {
                return None;
            }
            let k = 1i128 << e;
            let lhs = two_mq.checked_mul(k)?.checked_sub(p.checked_mul(2)?)?;
            let rhs = q.checked_mul(5)?.checked_mul(k)?;
            Some(lhs.abs() <= rhs)
        } else {
            let sh = (-e) as u32;
            if sh > 120 {
                return None;
            }
            let lhs = two_mq.checked_sub(p.checked_mul(2)?.checked_mul(1i128 << sh)?)?;
            Some(lhs.abs() <= q.checked_mul(5)?)
        }
    };
    inner().unwrap_or(false)
}

fn is_dyadic53(p: i128, q: i128) -> bool {
    fn gcd(a: i128, b: i128) -> i128 {
        if b == 0 {
            a
        } else {
            gcd(b, a % b)
        }
    }
    let g = gcd(p.abs(), q);
    let (p, q) = (p.abs() / g.max(1), q / g.max(1));
    q.count_ones() == 1 && p < (1i128 << 53)
}

/// exact total of `unit` between r and E as a rational, `None` if not constructible
fn total_model(r: &Report, rf: &Rf, u: usize, origin: i128, e: i128) -> Option<(i128, i128)> {
    if u <= rf.uniform_max() {
        return Some((e - origin, UNIT_NS[u]));
    }
    let s: i128 = (e - origin).signum();
    if s == 0 {
        return Some((0, 1));
    }
    let approx: i128 = match u {
        D => DAY_NS,
        W => 7 * DAY_NS,
        MO => 30 * DAY_NS + DAY_NS * 436_875 / 1_000_000,
        _ => 365 * DAY_NS + DAY_NS * 2_425 / 10_000,
    };
    let pt = |n: i128| -> Option<i128> {
        if n.abs() > LIMITS[u] as i128 {
            return None;
        }
        let mut f = [0; 10];
        f[u] = (s * n) as i64;
        rf.point(r, &f)
    };
    let beyond = |p: i128| (p - e) * s > 0;
    let mut n = (e - origin).abs() / approx;
    for _ in 0..64 {
        let p = pt(n)?;
        if beyond(p) {
            n -= 1;
            continue;
        }
        let q = pt(n + 1)?;
        if !beyond(q) {
            n += 1;
            continue;
        }
        let den = (q - p).abs();
        if den == 0 {
            return None;
        }
        return Some((s * (n * den + (e - p).abs()), den));
    }
    None
}

fn section_total(r: &Report, sec: &str, refs: &[Rf], pool: &[Sp]) {
    let items: Vec<(&Rf, &Sp)> = refs.iter().flat_map(|rf| pool.iter().map(move |f| (rf, f))).collect();
    items.par_iter().for_each(|&(rf, f)| {
        if !wanted(r, rf, f) {
            return;
        }
        let c = mk_case(r, rf, f);
        let mut lc = Loc::default();
        for u in 0..10 {
            let cs = || format!("{} span={} ref={} unit={}", sec, fmt_sp(f), rf.name, UN[u]);
            let cls = || {
                let shadow = c.shadow && u >= MO;
                let zc = if shadow && c.zclass == "zoned:reference-on-later-side-of-fold" { "zoned" } else { c.zclass };
                format!("unit={},{}{}", UN[u], zc, if shadow { ",r+span-in-shadow-of-clamped-month-end" } else { "" })
            };
            let got = guard(|| match rf.rel() {
                Some(rel) => c.span.total((UNITS[u], rel)),
                None => c.span.total(UNITS[u]),
            });
            let got = match got {
                Err(p) => {
                    lc.add("panic");
                    r.viol(sec, &format!("Span::total/{}:{}", panic_sig(&p), cls()), cs(), p);
                    continue;
                }
                Ok(g) => g,
            };
            let maxu = c.own.max(u);
            let refuse = match rf.k {
                RfK::None => maxu >= D,
                RfK::Marker => maxu >= MO,
                _ => false,
            };
            if refuse {
                match got {
                    Err(_) => lc.add("refused_as_required"),
                    Ok(x) => {
                        lc.add("accepted_but_must_refuse");
                        r.viol(sec, &format!("Span::total/accepted-without-reference:{}", rf.kind()), cs(), format!("jiff Ok({}) model: must be an error", x));
                    }
                }
                continue;
            }
            let model = c.e.and_then(|e| total_model(r, rf, u, c.origin, e));
            match (got, model) {
                (Ok(x), Some((p, q))) => {
                    if f64_close(x, p, q) {
                        lc.add("ok");
                        if u > rf.uniform_max() {
                            lc.add("ok_variable_unit");
                        }
                        if p % q != 0 {
                            lc.add("ok_fractional");
                        }
                        if is_dyadic53(p, q) {
                            let (m, e2) = num::f64_decompose(x).unwrap();
                            // exactness for short dyadics: recorded only
                            let exact = if e2 >= 0 { m.checked_mul(1i128 << e2.min(100)).map(|v| v.checked_mul(q) == Some(p)).unwrap_or(false) } else { p.checked_mul(1i128 << (-e2).min(100)).map(|v| Some(v) == m.checked_mul(q)).unwrap_or(false) };
                            lc.add(if exact { "dyadic_exact" } else { "dyadic_inexact" });
                        }
                    } else {
                        lc.add("wrong");
                        let sig = if c.sign == 0 {
                            "Span::total/value:zero-span".to_string()
                        } else {
                            format!("Span::total/value:{},{}", if c.sign < 0 { "negative-span" } else { "positive-span" }, cls())
                        };
                        r.viol(
                            sec,
                            &sig,
                            cs(),
                            format!("jiff {:?} model {}/{} = {:?}", x, p, q, p as f64 / q as f64),
                        );
                    }
                }
                (Ok(_), None) => lc.add("ok_model_not_constructible"),
                (Err(e), Some((p, _))) => {
                    let short = (c.e.unwrap() - c.origin).abs() < (1i128 << 62);
                    if short && rf.mid && f.iter().enumerate().all(|(u, &x)| x.unsigned_abs() <= (LIMITS[u] / 4) as u64) {
                        lc.add("unexpected_error");
                        r.viol(sec, &format!("Span::total/unexpected-error:{}", cls()), cs(), format!("jiff Err({}) model numerator {}", e, p));
                    } else {
                        lc.add("error_out_of_range");
                    }
                }
                (Err(_), None) => lc.add("error_out_of_range"),
            }
        }
        r.add_states(1);
        r.add_transitions(10);
        r.add_validated(10);
        lc.flush(r, &format!("{}:", sec));
    });
}

// ---------------------------------------------------------------------------
// compare, checked_add / checked_sub, to_duration
// ---------------------------------------------------------------------------

fn section_pairs(r: &Report, refs: &[Rf], sub: &[Sp]) {
    let sec = "compare_arith";
    refs.par_iter().for_each(|rf| {
        let mut lc = Loc::default();
        let cases: Vec<RoundCase> = sub.iter().map(|f| mk_case(r, rf, f)).collect();
        let mut n = 0u64;
        for a in &cases {
            for b in &cases {
                n += 3;
                let maxu = a.own.max(b.own);
                let refuse = match rf.k {
                    RfK::None => maxu >= D,
                    RfK::Marker => maxu >= MO,
                    _ => false,
                };
                let zc = if a.zfold {
                    a.zclass
                } else if b.zfold {
                    b.zclass
                } else {
                    rf.kind()
                };
                // (5) compare
                {
                    let cs = || format!("compare a={} b={} ref={}", fmt_sp(a.f), fmt_sp(b.f), rf.name);
                    let got = guard(|| match rf.rel() {
                        Some(rel) => a.span.compare((b.span, rel)),
                        None => a.span.compare(b.span),
                    });
                    match got {
                        Err(p) => r.viol(sec, &format!("Span::compare/{}:{}", panic_sig(&p), zc), cs(), p),
                        Ok(Ok(o)) if refuse => r.viol(sec, &format!("Span::compare/accepted-without-reference:{}", rf.kind()), cs(), format!("jiff Ok({:?}) model: must be an error", o)),
                        Ok(Err(_)) if refuse => lc.add("compare_refused_as_required"),
                        Ok(Ok(o)) => match (a.e, b.e) {
                            (Some(x), Some(y)) => {
                                if o == x.cmp(&y) {
                                    lc.add(match o {
                                        Ordering::Less => "compare_less",
                                        Ordering::Equal => "compare_equal",
                                        Ordering::Greater => "compare_greater",
                                    });
                                } else {
                                    r.viol(sec, &format!("Span::compare/order:{}", zc), cs(), format!("jiff {:?}; r+a = {}, r+b = {}", o, conv::fmt_ns(x), conv::fmt_ns(y)));
                                }
                            }
                            _ => lc.add("compare_ok_endpoint_unrepresentable"),
                        },
                        Ok(Err(e)) => {
                            if a.e.is_some() && b.e.is_some() && rf.mid && (a.e.unwrap() - a.origin).abs() < (1i128 << 62) && (b.e.unwrap() - b.origin).abs() < (1i128 << 62) {
                                r.viol(sec, &format!("Span::compare/unexpected-error:{}", zc), cs(), format!("jiff Err({}) although r+a and r+b exist", e));
                            } else {
                                lc.add("compare_error_out_of_range");
                            }
                        }
                    }
                }
                // checked_add / checked_sub: r + (a op b) == (r + a) + (op b)
                for sub_op in [false, true] {
                    let opn = if sub_op { "checked_sub" } else { "checked_add" };
                    let cs = || format!("{} a={} b={} ref={}", opn, fmt_sp(a.f), fmt_sp(b.f), rf.name);
                    let got = guard(|| match (rf.rel(), sub_op) {
                        (Some(rel), false) => a.span.checked_add((b.span, rel)),
                        (Some(rel), true) => a.span.checked_sub((b.span, rel)),
                        (None, false) => a.span.checked_add(b.span),
                        (None, true) => a.span.checked_sub(b.span),
                    });
                    let mut bf = *b.f;
                    if sub_op {
                        for x in bf.iter_mut() {
                            *x = -*x;
                        }
                    }
                    // the end point (r + a) + b
                    let mut zc = rf.kind();
                    let end: Option<i128> = match &rf.k {
                        RfK::None | RfK::Marker => a.e.zip(inv_ns(&bf, rf.allowed())).map(|(x, y)| x + y),
                        RfK::Civil(dt, _) => try_span(a.f).zip(try_span(&bf)).and_then(|(sa, sb)| {
                            let jf = match guard(|| dt.checked_add(sa).and_then(|m| m.checked_add(sb))) {
                                Ok(Ok(x)) => Some(conv::dt_civil_ns(x)),
                                _ => None,
                            };
                            let m = match model::civil_add(conv::dt_civil_ns(*dt), a.f) {
                                Madd::Ok(x) => model::civil_add(x, &bf),
                                w => w,
                            };
                            reconcile(r, "DateTime::checked_add", jf, m, &|| format!("({} + {}) + {}", dt, fmt_sp(a.f), fmt_sp(&bf)))
                        }),
                        RfK::Zoned(z, zm) => {
                            let mid = zadd(r, z, zm, a.f);
                            let endz = mid.as_ref().and_then(|m| zadd(r, m, zm, &bf));
                            zc = if rf.r_later {
                                "zoned:reference-on-later-side-of-fold"
                            } else if endz.as_ref().map(later_side_of_fold).unwrap_or(false) {
                                "zoned:(r+a)+b-on-later-side-of-fold"
                            } else if mid.as_ref().map(later_side_of_fold).unwrap_or(false) {
                                "zoned:r+a-on-later-side-of-fold"
                            } else {
                                "zoned"
                            };
                            endz.map(|x| conv::ts_ns(x.timestamp()))
                        }
                    };
                    match got {
                        Err(p) => r.viol(sec, &format!("Span::{}/{}:{}", opn, panic_sig(&p), zc), cs(), p),
                        Ok(Ok(s)) if refuse => r.viol(sec, &format!("Span::{}/accepted-without-reference:{}", opn, rf.kind()), cs(), format!("jiff Ok({}) model: must be an error", fmt_sp(&fields(&s)))),
                        Ok(Err(_)) if refuse => lc.add("arith_refused_as_required"),
                        Ok(Ok(s)) => {
                            let g = fields(&s);
                            match (rf.point(r, &g), end) {
                                (Some(x), Some(y)) => {
                                    if x == y {
                                        lc.add("arith_ok");
                                    } else {
                                        r.viol(sec, &format!("Span::{}/endpoint:{}", opn, zc), cs(), format!("jiff {}: r+result = {}, (r+a)+b = {}", fmt_sp(&g), conv::fmt_ns(x), conv::fmt_ns(y)));
                                    }
                                }
                                _ => lc.add("arith_ok_endpoint_unrepresentable"),
                            }
                        }
                        Ok(Err(_)) => lc.add("arith_error"),
                    }
                }
            }
        }
        r.add_states(cases.len() as u64);
        r.add_transitions(n);
        r.add_validated(n);
        lc.flush(r, "pairs:");
    });
}

fn section_to_duration(r: &Report, refs: &[Rf], pool: &[Sp]) {
    let sec = "to_duration";
    let items: Vec<(&Rf, &Sp)> = refs.iter().flat_map(|rf| pool.iter().map(move |f| (rf, f))).collect();
    items.par_iter().for_each(|&(rf, f)| {
        if !wanted(r, rf, f) {
            return;
        }
        let c = mk_case(r, rf, f);
        let mut lc = Loc::default();
        let cs = || format!("to_duration span={} ref={}", fmt_sp(f), rf.name);
        // without a reference the API is `SignedDuration::try_from(span)`
        let got: Result<Result<SignedDuration, jiff::Error>, String> = guard(|| match rf.rel() {
            Some(rel) => c.span.to_duration(rel),
            None => SignedDuration::try_from(c.span),
        });
        let refuse = match rf.k {
            RfK::None => c.own >= D,
            RfK::Marker => c.own >= MO,
            _ => false,
        };
        match got {
            Err(p) => r.viol(sec, &format!("Span::to_duration/{}:{}", panic_sig(&p), c.zclass), cs(), p),
            Ok(Ok(d)) if refuse => r.viol(sec, &format!("Span::to_duration/accepted-without-reference:{}", rf.kind()), cs(), format!("jiff Ok({:?}) model: must be an error", d)),
            Ok(Err(_)) if refuse => lc.add("refused_as_required"),
            Ok(Ok(d)) => match c.e {
                Some(e) => {
                    if d.as_nanos() == e - c.origin {
                        lc.add("ok");
                    } else {
                        r.viol(sec, &format!("Span::to_duration/value:{}", c.zclass), cs(), format!("jiff {} ns; (r+span)-r = {} ns", d.as_nanos(), e - c.origin));
                    }
                }
                None => lc.add("ok_endpoint_unrepresentable"),
            },
            Ok(Err(e)) => {
                if c.e.is_some() && rf.mid && (c.e.unwrap() - c.origin).abs() < (1i128 << 62) {
                    r.viol(sec, &format!("Span::to_duration/unexpected-error:{}", c.zclass), cs(), format!("jiff Err({})", e));
                } else {
                    lc.add("error_out_of_range");
                }
            }
        }
        r.add_states(1);
        r.add_transitions(1);
        r.add_validated(1);
        lc.flush(r, "to_duration:");
    });
}

// ---------------------------------------------------------------------------

fn main() {
    let r = Report::from_args("C11");
    let level: u8 = if r.thorough() { 1 } else { 0 };
    let pool = span_pool(level);
    let sub = sub_pool();
    let crefs = civil_refs(level);
    let zrefs = zoned_refs(&r, level);
    r.count("spans", pool.len() as u64);
    r.count("sub_pool_spans", sub.len() as u64);
    r.count("refs_none_marker_civil", crefs.len() as u64);
    r.count("refs_zoned", zrefs.len() as u64);
    r.count("refs_zoned_on_later_side_of_fold", zrefs.iter().filter(|x| x.r_later).count() as u64);
    let _ = Timestamp::UNIX_EPOCH;

    // self-test of the float comparison
    assert!(f64_close(1.5, 3, 2) && f64_close(1.0 / 3.0, 1, 3) && !f64_close(0.3333, 1, 3) && f64_close(-2.5e-17, -25, 1_000_000_000_000_000_000));
    assert!(f64_close(6.3e20, 630_000_000_000_000_000_000, 1) && !f64_close(6.3e20, 630_000_000_000_001_000_000, 1));

    r.section("round_noref", || section_round(&r, "round_noref", &crefs[..2], &pool));
    r.section("round_civil", || section_round(&r, "round_civil", &crefs[2..], &pool));
    r.section("round_zoned", || section_round(&r, "round_zoned", &zrefs, &pool));
    r.section("round_bad_increment", || {
        let some: Vec<Sp> = sub.iter().copied().take(41).collect();
        section_bad_increment(&r, &crefs.iter().collect::<Vec<_>>(), &some);
        let zsome: Vec<&Rf> = zrefs.iter().take(14).collect();
        section_bad_increment(&r, &zsome, &some);
    });
    r.section("total", || section_total(&r, "total", &crefs, &pool));
    r.section("total_zoned", || section_total(&r, "total_zoned", &zrefs, &pool));
    // (coverage extension) references at the limits of the civil range:
    // refusals are documented there; no panic, and the same oracle for
    // whatever is returned
    let erefs = edge_refs();
    r.count("refs_at_civil_range_limits", erefs.len() as u64);
    r.section("compare_arith", || {
        section_pairs(&r, &crefs, &sub);
        section_pairs(&r, &zrefs, &sub);
        section_pairs(&r, &erefs, &sub);
    });
    r.section("to_duration", || {
        section_to_duration(&r, &crefs, &pool);
        section_to_duration(&r, &zrefs, &pool);
        section_to_duration(&r, &erefs, &sub);
    });
    // --- coverage extension ---
    r.section("round_edge", || section_round(&r, "round_edge", &erefs, &sub));
    r.section("total_edge", || section_total(&r, "total_edge", &erefs, &sub));
    // a spread of references for the sections that vary the *form* of the call:
    // none, marker, every civil one, and of the zoned ones every third (quick)
    let zstep = if level == 0 { 3 } else { 1 };
    let some_refs: Vec<&Rf> = crefs.iter().chain(erefs.iter()).chain(zrefs.iter().step_by(zstep)).collect();
    r.count("refs_for_forms_and_durations", some_refs.len() as u64);
    // the sub-pool plus exact ties of single time / calendar units (where the
    // default mode differs from its neighbours in the mode table)
    let mut fpool = sub.clone();
    for (u, x) in [(4usize, 30i64), (3, 30), (5, 12), (2, 500), (D, 15), (MO, 6)] {
        for sg in [1, -1] {
            let mut sp = [0; 10];
            sp[u] = sg * x;
            if !fpool.contains(&sp) {
                fpool.push(sp);
            }
        }
    }
    r.section("forms", || ext::section_forms(&r, &some_refs, &fpool));
    r.section("arith_durations", || ext::section_durations(&r, &some_refs, &sub));
    r.section("round_increments", || {
        let civ: Vec<&Rf> = crefs.iter().filter(|x| matches!(x.name.as_str(), "none" | "days-are-24h" | "date:2024-01-31" | "datetime:2024-02-29T12:30:00.5" | "date:2024-03-31")).collect();
        ext::section_increments(&r, &civ, &sub);
        let zstep = if level == 0 { 9 } else { 4 };
        let zs: Vec<&Rf> = zrefs.iter().step_by(zstep).collect();
        r.count("refs_for_round_increments", (civ.len() + zs.len()) as u64);
        ext::section_increments(&r, &zs, &sub);
    });
    // how r + span was obtained
    for (k, v) in [
        ("addition:jiff_and_reference_addition_agree", &ADD_AGREE),
        ("addition:reference_addition_undefined(F7 window, 3 pre-images)", &ADD_MODEL_UNDEF),
        ("addition:both_out_of_range", &ADD_BOTH_ERR),
        ("addition:jiff_ok_reference_out_of_range", &ADD_JIFF_OK_MODEL_ERR),
        ("addition:jiff_err_reference_ok", &ADD_JIFF_ERR_MODEL_OK),
        ("addition:values_differ", &ADD_DIFFER),
    ] {
        r.outcome(k, v.load(AO::Relaxed));
    }
    r.count("addition_cross_checked", ADD_AGREE.load(AO::Relaxed));

    let has = |k: &str| r.get_count(k) > 0;
    r.require(has("round_noref:ok") && has("round_noref:refused_as_required") && has("round_noref:moved") && has("round_noref:exact"), "round without reference: accepted, refused, moved and exact results all observed");
    r.require(has("round_civil:ok") && has("round_civil:tie_right") && has("round_civil:moved") && has("round_civil:exact") && has("round_civil:error_out_of_range"), "round relative to civil: exact, moved, ties judged and overflow errors all observed");
    r.require(has("round_zoned:ok") && has("round_zoned:tie_right") && has("round_zoned:moved") && has("round_zoned:exact"), "round relative to zoned: exact, moved and ties judged all observed");
    r.require(has("total:ok_variable_unit") && has("total:ok_fractional") && has("total_zoned:ok_variable_unit") && has("total:refused_as_required"), "total: variable units, fractional values and refusals observed");
    r.require(has("pairs:compare_less") && has("pairs:compare_equal") && has("pairs:compare_greater") && has("pairs:arith_ok"), "compare: all three orderings; arithmetic: results checked");
    r.require(has("to_duration:ok") && has("to_duration:refused_as_required"), "to_duration: values and refusals observed");
    r.require(zrefs.iter().any(|x| x.r_later) && zrefs.iter().any(|x| !x.r_later) && r.get_count("zoned_ref_gaps") > 0 && r.get_count("zoned_ref_folds") > 0, "zoned references at gaps and folds, on both sides of a fold");
    r.require(has("addition_cross_checked") && ADD_AGREE.load(AO::Relaxed) > 100 * (ADD_MODEL_UNDEF.load(AO::Relaxed) + 1), "r + span was cross-checked against the reference addition (and the reference addition was defined nearly everywhere)");
    r.require(has("round_noref:balanced") && has("round_civil:balanced") && has("round_zoned:balanced"), "balance of the rounded span judged for every kind of reference");
    r.require(has("round_zoned:week_above_week_all_weeks_168h") && has("round_zoned:week_above_week_offset_changes_within_reach"), "smallest=week with largest>week relative to zoned: both with and without an offset change within reach");
    r.require(has("zoned_ref_in_zone_without_transitions") && has("zoned_ref_midnight_of_transition_day") && has("zoned_ref_zones_synthetic"), "zoned references: a zone without transitions, midnight of a transition day, a synthetic zone");
    r.require(has("forms:form_same") && has("forms:round_builder_ok") && has("forms:round_builder_err"), "forms: the alternative call forms were compared on accepted and on refused configurations");
    r.require(has("durations:ok_nonzero_duration") && has("durations:ok_calendar_a") && has("durations:refused_as_required"), "absolute durations: end points checked (also for spans with calendar units), refusals observed");
    r.require(has("round_increments:legal_increment") && has("round_increments:illegal_increment") && has("round_increments:ok") && has("round_increments:refused_as_required"), "whole increment alphabet: legal ones judged, illegal ones refused");
    r.note(format!(
        "alphabets: {} spans (singles at 1/carry-1/carry/carry+1/limit, exact-tie halves, 2-unit mixes just below a carry, fixed mixes, week-in-the-middle mixes; both signs); references: none, days-are-24h, {} civil dates/datetimes (month ends clamping forwards and backwards, leap day, year 0, MIN+1y, MAX-1y, a mid-day datetime), {} at the limits of the civil range, {} zoned (latest recorded gap and fold of each representative zone and of the synthetic zones - 30-minute and 20m15s DST, a skipped and a repeated civil day - at day-before, T-1ns, T, T+1ns, day-after, midnight of the transition day and both mid-fold instants; one in UTC); round: 10 smallest x (unset + every largest >= smallest) x 5 increments x 9 modes, plus every reversed pair once, plus the whole increment alphabet on {} spans; total: 10 units; compare/checked_add/checked_sub: all ordered pairs of {} spans per reference; to_duration: whole pool; every alternative call form; SignedDuration / std Duration operands",
        pool.len(),
        crefs.len() - 2,
        erefs.len(),
        zrefs.len(),
        sub.len(),
        sub.len()
    ));
    r.note("r + span is computed by jiff and by the reference addition (refmodel::cal / refmodel::tz) and the two are reconciled on every use; tolerance of total(): |f64 - exact rational| <= 2.5 ulp");
    r.sample(json!({"case": "round span={mo=1,d=15} ref=date:2024-01-31 smallest=d largest=w inc=5 mode=Floor", "model": "r+span = 2024-03-15 (44 days); reachable around it 6w0d (42) and 6w5d (47); Floor selects 42 days"}));
    r.sample(json!({"case": "round span={mo=-1,d=-15} ref=date:2023-12-31 smallest=mo mode=HalfTrunc", "model": "r+span = 2023-11-15, exactly half way between 2023-10-31 (-2mo) and 2023-11-30 (-1mo); HalfTrunc selects -1mo"}));
    r.sample(json!({"case": "total span={d=1} ref=zoned:America/New_York day of the spring gap unit=h", "model": "23/1 hours"}));
    r.finish();
}
