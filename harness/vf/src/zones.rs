//! Zone corpus (DESIGN.md section 2.3) and probe generation.

use jiff::tz::TimeZone;
use refmodel::tz as rtz;
use std::collections::BTreeMap;
use std::path::{Path, PathBuf};
use std::process::Command;

pub const SYS_DIR: &str = "/usr/share/zoneinfo";
pub const BUILD_ZONES: &str = "/verif/.build/zones";

#[derive(Clone)]
pub struct ZoneSrc {
    pub name: String,
    pub origin: String,
    pub bytes: Vec<u8>,
    /// all names that share this content (after de-duplication)
    pub aliases: Vec<String>,
}

fn walk(dir: &Path, base: &Path, out: &mut Vec<(String, Vec<u8>)>) {
    let mut ents: Vec<PathBuf> = match std::fs::read_dir(dir) {
        Ok(r) => r.filter_map(|e| e.ok()).map(|e| e.path()).collect(),
        Err(_) => return,
    };
    ents.sort();
    for p in ents {
        let md = match std::fs::metadata(&p) {
            Ok(m) => m,
            Err(_) => continue,
        };
        if md.is_dir() {
            walk(&p, base, out);
        } else if md.is_file() {
            if let Ok(b) = std::fs::read(&p) {
                if b.len() >= 44 && &b[0..4] == b"TZif" {
                    let name = p.strip_prefix(base).unwrap().to_string_lossy().into_owned();
                    out.push((name, b));
                }
            }
        }
    }
}

/// All TZif files under `dir`, de-duplicated by content (first name in sorted
/// order wins; the others are recorded as aliases).
pub fn from_dir(dir: &str, origin: &str, dedup: bool) -> Vec<ZoneSrc> {
    let mut all = vec![];
    walk(Path::new(dir), Path::new(dir), &mut all);
    if !dedup {
        return all
            .into_iter()
            .map(|(name, bytes)| ZoneSrc { name, origin: origin.to_string(), bytes, aliases: vec![] })
            .collect();
    }
    let mut by: BTreeMap<Vec<u8>, ZoneSrc> = BTreeMap::new();
    let mut order = vec![];
    for (name, bytes) in all {
        match by.get_mut(&bytes) {
            Some(z) => z.aliases.push(name),
            None => {
                order.push(bytes.clone());
                by.insert(bytes.clone(), ZoneSrc { name, origin: origin.to_string(), bytes, aliases: vec![] });
            }
        }
    }
    order.into_iter().map(|k| by.remove(&k).unwrap()).collect()
}

pub fn sys(dedup: bool) -> Vec<ZoneSrc> {
    from_dir(SYS_DIR, "sys", dedup)
}

pub fn bundled() -> Vec<ZoneSrc> {
    jiff_tzdb::available()
        .filter_map(|n| jiff_tzdb::get(n).map(|(name, b)| (name.to_string(), b.to_vec())))
        .map(|(name, bytes)| ZoneSrc { name, origin: "bundled".into(), bytes, aliases: vec![] })
        .collect()
}

/// Compile `src` (zic source) with `zic -b <mode>` into BUILD_ZONES/<tag>-<mode>.
pub fn zic(src: &str, tag: &str, mode: &str) -> Vec<ZoneSrc> {
    let dir = format!("{}/{}-{}-{}", BUILD_ZONES, tag, mode, std::process::id());
    let _ = std::fs::remove_dir_all(&dir);
    std::fs::create_dir_all(&dir).expect("mkdir zones");
    let st = Command::new("zic").args(["-b", mode, "-d", &dir, src]).output().expect("run zic");
    if !st.status.success() {
        panic!("zic failed: {}", String::from_utf8_lossy(&st.stderr));
    }
    let v = from_dir(&dir, &format!("{}-{}", tag, mode), false);
    let _ = std::fs::remove_dir_all(&dir);
    v
}

pub fn synth(mode: &str) -> Vec<ZoneSrc> {
    zic("/verif/data/synth/synth.zi", "synth", mode)
}

pub fn tzdata(mode: &str) -> Vec<ZoneSrc> {
    zic("/usr/share/zoneinfo/tzdata.zi", "tzdata", mode)
}

pub const REP: &[&str] = &[
    "America/New_York",
    "Europe/London",
    "Europe/Dublin",
    "Europe/Berlin",
    "Australia/Lord_Howe",
    "Pacific/Apia",
    "Pacific/Kiritimati",
    "Africa/Monrovia",
    "Asia/Kathmandu",
    "America/St_Johns",
    "Antarctica/Troll",
    "Africa/Casablanca",
    "America/Sao_Paulo",
    "Asia/Tehran",
    "America/Caracas",
    "Pacific/Honolulu",
    "Australia/Sydney",
    "UTC",
];

pub fn rep() -> Vec<ZoneSrc> {
    REP.iter()
        .map(|n| ZoneSrc {
            name: n.to_string(),
            origin: "sys".into(),
            bytes: std::fs::read(format!("{}/{}", SYS_DIR, n)).expect("rep zone"),
            aliases: vec![],
        })
        .collect()
}

/// Z-posix: the full product of the POSIX alphabet of DESIGN.md section 2.3.
/// `level` 0 = small (quick), 1 = medium, 2 = full.
pub fn posix_alphabet(level: u8) -> Vec<String> {
    let stds: &[(&str, &str)] = &[("AAA", "12"), ("NST", "3:30"), ("UTC", "0"), ("<+0545>", "-5:45"), ("<+13>", "-13")];
    let dsts: &[&str] = &["", "-0:30", "+1"]; // "" = default +1h; explicit offsets are absolute, patched below
    let days_full: &[&str] = &[
        "J1", "J59", "J60", "J365", "0", "58", "59", "364", "M1.1.0", "M3.2.0", "M3.5.0", "M10.5.0",
        "M11.1.0", "M12.5.6", "M2.5.3",
    ];
    let days_small: &[&str] = &["J1", "J60", "J365", "0", "59", "364", "M1.1.0", "M3.2.0", "M10.5.0", "M12.5.6"];
    let times_full: &[&str] = &["", "/0", "/24", "/26", "/-1", "/167", "/-167", "/1:30:15"];
    let times_small: &[&str] = &["", "/0", "/24", "/-1", "/167", "/-167"];
    let (days, times) = match level {
        0 => (&days_small[..6], &times_small[..4]),
        1 => (days_small, times_small),
        _ => (days_full, times_full),
    };
    let mut out = vec![];
    for (sa, so) in stds {
        out.push(format!("{}{}", sa, so));
        for d in dsts {
            // explicit dst offsets: interpret relative to std (std+0:30, std-1h)
            let dst_part = match *d {
                "" => "DDD".to_string(),
                rel => {
                    // compute absolute posix offset = std_posix - delta
                    let std_secs = posix_off_secs(so);
                    let delta = if rel == "-0:30" { 1800 } else { -3600 };
                    // utoff_dst = utoff_std + delta => posix = -(utoff) => posix_dst = posix_std - delta
                    let p = std_secs - delta;
                    format!("DDD{}", fmt_posix_off(p))
                }
            };
            for ds in days {
                for ts in times {
                    for de in days {
                        if ds == de {
                            continue;
                        }
                        for te in times {
                            out.push(format!("{}{}{},{}{},{}{}", sa, so, dst_part, ds, ts, de, te));
                        }
                    }
                }
            }
        }
    }
    // Keep only strings whose per-year and timeline readings coincide away from
    // year boundaries: start and end at least 16 days apart (cyclically) in
    // leap and non-leap years, so that rule times of up to +-7 days can never
    // make the two transitions of a year swap or touch. (Strings violating this
    // have no agreed meaning: POSIX describes each year separately.)
    out.retain(|s| {
        let Ok(tz) = rtz::parse_posix(s.as_bytes()) else { return true };
        if tz.dst.is_none() {
            return true;
        }
        [2023i64, 2024, 2025].iter().all(|&y| {
            let (a, b) = tz.year_transitions(y).unwrap();
            let d = (a - b).abs();
            let ylen = refmodel::cal::days_in_year(y) * 86400;
            d >= 16 * 86400 && ylen - d >= 16 * 86400
        })
    });
    out
}

fn posix_off_secs(s: &str) -> i64 {
    let (sign, rest) = if let Some(r) = s.strip_prefix('-') { (-1, r) } else { (1, s) };
    let mut it = rest.split(':');
    let h: i64 = it.next().unwrap().parse().unwrap();
    let m: i64 = it.next().map(|x| x.parse().unwrap()).unwrap_or(0);
    sign * (h * 3600 + m * 60)
}

fn fmt_posix_off(p: i64) -> String {
    let sign = if p < 0 { "-" } else { "" };
    let a = p.abs();
    if a % 3600 == 0 {
        format!("{}{}", sign, a / 3600)
    } else {
        format!("{}{}:{:02}", sign, a / 3600, (a % 3600) / 60)
    }
}

/// A zone loaded on both sides.
pub struct Pair {
    pub name: String,
    pub origin: String,
    pub model: rtz::Zone,
    pub jiff: TimeZone,
}

/// Load a TZif source on both sides. `Err` carries which side refused.
pub fn load_pair(z: &ZoneSrc) -> Result<Pair, String> {
    let model = rtz::zone_from_tzif(&z.bytes).map_err(|e| format!("model: {}", e))?;
    let jz = crate::guard(|| TimeZone::tzif(&z.name, &z.bytes))
        .map_err(|p| format!("jiff panic: {}", p))?
        .map_err(|e| format!("jiff: {}", e))?;
    Ok(Pair { name: z.name.clone(), origin: z.origin.clone(), model, jiff: jz })
}

pub fn load_posix_pair(s: &str) -> Result<Pair, String> {
    let model = rtz::zone_from_posix(s.as_bytes()).map_err(|e| format!("model: {}", e))?;
    let jz = crate::guard(|| TimeZone::posix(s))
        .map_err(|p| format!("jiff panic: {}", p))?
        .map_err(|e| format!("jiff: {}", e))?;
    Ok(Pair { name: s.to_string(), origin: "posix".into(), model, jiff: jz })
}

pub const TS_MIN_SEC: i64 = -377705023201;
pub const TS_MAX_SEC: i64 = 253402207200;

/// Indices of the pieces to probe: all recorded ones plus rule-generated ones
/// selected by `years` (None = all).
pub fn probe_pieces(z: &rtz::Zone, rule_year_filter: &dyn Fn(i64) -> bool) -> Vec<usize> {
    let mut v = vec![];
    for k in 1..z.pieces.len() {
        let p = &z.pieces[k];
        if p.start < TS_MIN_SEC - 100_000 || p.start > TS_MAX_SEC + 100_000 {
            continue;
        }
        if p.recorded {
            v.push(k);
        } else {
            let y = refmodel::cal::civil_from_days(p.start.div_euclid(86400)).0;
            if rule_year_filter(y) {
                v.push(k);
            }
        }
    }
    v
}

/// P(z): the instants (in ns) to probe around transition `t` (unix seconds),
/// clipped to the timestamp range.
pub fn instants_around(t: i64) -> Vec<i128> {
    let b = t as i128 * 1_000_000_000;
    let mut v = vec![
        b - 1_000_000_000,
        b - 500_000_000,
        b - 1,
        b,
        b + 1,
        b + 500_000_000,
        b + 1_000_000_000,
    ];
    let min = TS_MIN_SEC as i128 * 1_000_000_000;
    let max = TS_MAX_SEC as i128 * 1_000_000_000 + 999_999_999;
    v.retain(|&x| x >= min && x <= max);
    v
}
