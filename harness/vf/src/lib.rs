//! Shared machinery of the jiff checks (engines E1/E2): run context and
//! violation collection, panic capture, zone corpus, probe generation and
//! conversions between jiff values and the reference model's integers.
pub mod guard;
pub mod report;
pub mod conv;
pub mod zones;
pub mod pools;

pub use guard::{guard, panic_sig};
pub use report::{Report, Tier};
