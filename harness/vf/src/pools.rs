//! Boundary value pools (E1 alphabets), ordered simplest-first.
use jiff::civil::{Date, DateTime, Time};
use jiff::Timestamp;

pub fn dates() -> Vec<Date> {
    let raw: &[(i16, i8, i8)] = &[
        (1970, 1, 1),
        (2024, 2, 29),
        (2024, 1, 31),
        (2023, 1, 31),
        (2023, 2, 28),
        (2024, 3, 31),
        (2024, 12, 31),
        (2023, 12, 31),
        (1969, 12, 31),
        (2000, 2, 29),
        (1999, 12, 31),
        (1972, 2, 29),
        (2100, 2, 28),
        (2024, 3, 10),
        (2024, 11, 3),
        (1, 1, 1),
        (0, 12, 31),
        (0, 1, 1),
        (0, 2, 29),
        (0, 3, 1),
        (-1, 12, 31),
        (-4, 2, 29),
        (9999, 1, 31),
        (9999, 12, 30),
        (9999, 12, 31),
        (-9999, 1, 1),
        (-9999, 1, 2),
        (-9999, 2, 28),
        (-9999, 12, 31),
    ];
    raw.iter().map(|&(y, m, d)| Date::new(y, m, d).unwrap()).collect()
}

pub fn times() -> Vec<Time> {
    let raw: &[(i8, i8, i8, i32)] = &[
        (0, 0, 0, 0),
        (12, 0, 0, 0),
        (0, 0, 0, 1),
        (0, 0, 1, 0),
        (1, 30, 0, 0),
        (2, 30, 0, 0),
        (11, 59, 59, 999_999_999),
        (12, 0, 0, 500_000_000),
        (23, 0, 0, 0),
        (23, 59, 59, 0),
        (23, 59, 59, 500_000_000),
        (23, 59, 59, 999_999_999),
    ];
    raw.iter().map(|&(h, m, s, n)| Time::new(h, m, s, n).unwrap()).collect()
}

pub fn datetimes() -> Vec<DateTime> {
    let mut v = vec![];
    for d in dates() {
        for t in times() {
            v.push(DateTime::from_parts(d, t));
        }
    }
    v
}

pub fn timestamps() -> Vec<Timestamp> {
    let min = Timestamp::MIN.as_nanosecond();
    let max = Timestamp::MAX.as_nanosecond();
    let raw: Vec<i128> = vec![
        0,
        1,
        -1,
        500_000_000,
        -500_000_000,
        1_000_000_000,
        -1_000_000_000,
        -1_500_000_000,
        86_399_999_999_999,
        -86_400_000_000_001,
        1_700_000_000_123_456_789,
        -1_700_000_000_123_456_789,
        max,
        max - 1,
        min,
        min + 1,
        max - 999_999_999,
        min + 999_999_999,
        // thresholds of *derived* quantities: the nanosecond count crossing
        // 2^63 (an instant in 2262 / 1677) and 2^53, the microsecond count
        // crossing 2^53 - boundaries for code that computes in i64 or f64
        // although the second count is unremarkable there
        (1i128 << 63) - 1,
        1i128 << 63,
        (1i128 << 63) + 145_224_191,
        9_223_372_036_999_999_999,
        -(1i128 << 63),
        -(1i128 << 63) - 1,
        -9_223_372_036_999_999_999,
        (1i128 << 53) + 1,
        -(1i128 << 53) - 1,
        ((1i128 << 53) + 1) * 1_000,
        -((1i128 << 53) + 1) * 1_000 - 1,
    ];
    raw.into_iter().map(|n| Timestamp::from_nanosecond(n).unwrap()).collect()
}
