//! Conversions between jiff values and the reference model's plain integers.
//! Only public accessors / constructors of jiff are used.
use jiff::civil::{Date, DateTime, Time};
use jiff::Timestamp;
use refmodel::cal;

pub const NS: i128 = 1_000_000_000;
pub const DAY_NS: i128 = 86_400 * NS;

pub fn ts_ns(t: Timestamp) -> i128 {
    t.as_nanosecond()
}
pub fn ts_from_ns(n: i128) -> Option<Timestamp> {
    Timestamp::from_nanosecond(n).ok()
}
pub fn ts_from_sec(s: i64) -> Option<Timestamp> {
    Timestamp::from_second(s).ok()
}
pub fn ts_min_ns() -> i128 {
    Timestamp::MIN.as_nanosecond()
}
pub fn ts_max_ns() -> i128 {
    Timestamp::MAX.as_nanosecond()
}

pub fn date_ymd(d: Date) -> (i64, i64, i64) {
    (d.year() as i64, d.month() as i64, d.day() as i64)
}
/// Epoch day of a jiff date, read from its public fields. A `Date` whose
/// fields do not name a day of the Gregorian calendar (e.g. 2023-02-29, which
/// a defective operation can fabricate) maps to a poison value far outside the
/// supported range, so that it can never compare equal to a model result.
pub fn date_epoch_day(d: Date) -> i64 {
    let (y, m, dd) = date_ymd(d);
    if !cal::valid_date(y, m, dd) {
        return -1_000_000_000 - ((y + 40_000) * 512 + m * 32 + dd);
    }
    cal::days_from_civil(y, m, dd)
}
pub fn date_from_epoch_day(n: i64) -> Option<Date> {
    if n < cal::min_day() || n > cal::max_day() {
        return None;
    }
    let (y, m, d) = cal::civil_from_days(n);
    Date::new(y as i16, m as i8, d as i8).ok()
}
pub fn time_ns(t: Time) -> i128 {
    (t.hour() as i128 * 3600 + t.minute() as i128 * 60 + t.second() as i128) * NS
        + t.subsec_nanosecond() as i128
}
pub fn time_from_ns(n: i128) -> Time {
    assert!((0..DAY_NS).contains(&n));
    let s = (n / NS) as i64;
    Time::new((s / 3600) as i8, ((s / 60) % 60) as i8, (s % 60) as i8, (n % NS) as i32).unwrap()
}
/// Civil datetime as nanoseconds since 1970-01-01T00:00:00 on the local wall clock.
pub fn dt_civil_ns(dt: DateTime) -> i128 {
    date_epoch_day(dt.date()) as i128 * DAY_NS + time_ns(dt.time())
}
pub fn dt_from_civil_ns(n: i128) -> Option<DateTime> {
    let day = n.div_euclid(DAY_NS);
    let rem = n.rem_euclid(DAY_NS);
    let d = date_from_epoch_day(day as i64)?;
    Some(DateTime::from_parts(d, time_from_ns(rem)))
}
pub fn dt_min_ns() -> i128 {
    cal::min_day() as i128 * DAY_NS
}
pub fn dt_max_ns() -> i128 {
    (cal::max_day() as i128 + 1) * DAY_NS - 1
}
pub fn fmt_ns(n: i128) -> String {
    let sign = if n < 0 { "-" } else { "" };
    let a = n.unsigned_abs();
    format!("{}{}.{:09}", sign, a / 1_000_000_000, a % 1_000_000_000)
}
