//! Panic capture: every call into jiff goes through `guard`.
use std::cell::RefCell;
use std::panic::{catch_unwind, AssertUnwindSafe};

thread_local! {
    static LAST: RefCell<Option<String>> = RefCell::new(None);
}

pub fn install_hook() {
    std::panic::set_hook(Box::new(|info| {
        let msg = if let Some(s) = info.payload().downcast_ref::<&str>() {
            s.to_string()
        } else if let Some(s) = info.payload().downcast_ref::<String>() {
            s.clone()
        } else {
            "<non-string panic>".to_string()
        };
        let loc = info.location().map(|l| format!("{}:{}", l.file(), l.line())).unwrap_or_default();
        LAST.with(|l| *l.borrow_mut() = Some(format!("{} @ {}", msg, loc)));
    }));
}

/// Run `f`, returning `Err("message @ file:line")` if it panicked.
pub fn guard<T>(f: impl FnOnce() -> T) -> Result<T, String> {
    match catch_unwind(AssertUnwindSafe(f)) {
        Ok(v) => Ok(v),
        Err(_) => Err(LAST.with(|l| l.borrow_mut().take()).unwrap_or_else(|| "<panic>".into())),
    }
}

/// A panic signature stable against line-number drift and embedded values:
/// message with digits collapsed + file name.
pub fn panic_sig(p: &str) -> String {
    let (msg, loc) = match p.rsplit_once(" @ ") {
        Some((m, l)) => (m, l),
        None => (p, ""),
    };
    let file = loc.rsplit_once(':').map(|x| x.0).unwrap_or(loc);
    let file = file.rsplit_once("/repo/").map(|x| x.1).unwrap_or(file);
    let mut out = String::new();
    let mut lastdig = false;
    for c in msg.chars().take(80) {
        if c.is_ascii_digit() {
            if !lastdig {
                out.push('#');
            }
            lastdig = true;
        } else {
            lastdig = false;
            out.push(c);
        }
    }
    format!("panic[{}]{}", file, out)
}
