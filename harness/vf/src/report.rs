//! Run context, counters, violation collection and the result file that the
//! `/verif/check` driver turns into evidence, replay files and exit codes.

use serde_json::{json, Value};
use std::collections::BTreeMap;
use std::sync::atomic::{AtomicU64, Ordering};
use std::sync::Mutex;
use std::time::Instant;

#[derive(Clone, Copy, PartialEq, Eq, Debug)]
pub enum Tier {
    Quick,
    Thorough,
}

pub struct Viol {
    pub count: u64,
    pub section: String,
    pub case: String,
    pub detail: String,
}

pub struct Report {
    pub prop: String,
    pub tier: Tier,
    pub out: Option<String>,
    /// restrict to one section (replay)
    pub only_section: Option<String>,
    /// restrict reporting to one case string (replay)
    pub only_case: Option<String>,
    pub flavour: String,
    start: Instant,
    states: AtomicU64,
    transitions: AtomicU64,
    validated: AtomicU64,
    counters: Mutex<BTreeMap<String, u64>>,
    outcomes: Mutex<BTreeMap<String, u64>>,
    samples: Mutex<Vec<Value>>,
    viols: Mutex<BTreeMap<String, Viol>>,
    sections: Mutex<Vec<(String, f64)>>,
    notes: Mutex<Vec<String>>,
    caps: Mutex<Vec<String>>,
}

impl Report {
    /// Parse the common command line:
    /// `--tier quick|thorough --out FILE [--section S] [--only-case C]`
    pub fn from_args(prop: &str) -> Report {
        crate::guard::install_hook();
        let args: Vec<String> = std::env::args().collect();
        let mut tier = Tier::Quick;
        let mut out = None;
        let mut only_section = None;
        let mut only_case = None;
        let mut i = 1;
        while i < args.len() {
            match args[i].as_str() {
                "--tier" => {
                    tier = if args[i + 1] == "thorough" { Tier::Thorough } else { Tier::Quick };
                    i += 1;
                }
                "--out" => {
                    out = Some(args[i + 1].clone());
                    i += 1;
                }
                "--section" => {
                    only_section = Some(args[i + 1].clone());
                    i += 1;
                }
                "--only-case" => {
                    only_case = Some(args[i + 1].clone());
                    i += 1;
                }
                _ => {}
            }
            i += 1;
        }
        let flavour = if cfg!(debug_assertions) { "relda" } else { "release" };
        Report {
            prop: prop.to_string(),
            tier,
            out,
            only_section,
            only_case,
            flavour: flavour.to_string(),
            start: Instant::now(),
            states: AtomicU64::new(0),
            transitions: AtomicU64::new(0),
            validated: AtomicU64::new(0),
            counters: Mutex::new(BTreeMap::new()),
            outcomes: Mutex::new(BTreeMap::new()),
            samples: Mutex::new(vec![]),
            viols: Mutex::new(BTreeMap::new()),
            sections: Mutex::new(vec![]),
            notes: Mutex::new(vec![]),
            caps: Mutex::new(vec![]),
        }
    }

    pub fn quick(&self) -> bool {
        self.tier == Tier::Quick
    }
    pub fn thorough(&self) -> bool {
        self.tier == Tier::Thorough
    }

    /// Run a named section unless filtered out; records its wall time.
    pub fn section<F: FnOnce()>(&self, name: &str, f: F) {
        if let Some(s) = &self.only_section {
            if s != name {
                return;
            }
        }
        let t = Instant::now();
        f();
        let dt = t.elapsed().as_secs_f64();
        eprintln!("[{}] section {} done in {:.2}s", self.prop, name, dt);
        self.sections.lock().unwrap().push((name.to_string(), dt));
    }

    pub fn add_states(&self, n: u64) {
        self.states.fetch_add(n, Ordering::Relaxed);
    }
    pub fn add_transitions(&self, n: u64) {
        self.transitions.fetch_add(n, Ordering::Relaxed);
    }
    pub fn add_validated(&self, n: u64) {
        self.validated.fetch_add(n, Ordering::Relaxed);
    }
    pub fn count(&self, name: &str, n: u64) {
        *self.counters.lock().unwrap().entry(name.to_string()).or_insert(0) += n;
    }
    pub fn get_count(&self, name: &str) -> u64 {
        self.counters.lock().unwrap().get(name).copied().unwrap_or(0)
    }
    /// distinct observed outcome classes (non-vacuity)
    pub fn outcome(&self, class: &str, n: u64) {
        *self.outcomes.lock().unwrap().entry(class.to_string()).or_insert(0) += n;
    }
    pub fn sample(&self, v: Value) {
        let mut s = self.samples.lock().unwrap();
        if s.len() < 12 {
            s.push(v);
        }
    }
    pub fn note(&self, s: impl Into<String>) {
        self.notes.lock().unwrap().push(s.into());
    }
    pub fn cap(&self, s: impl Into<String>) {
        self.caps.lock().unwrap().push(s.into());
    }

    /// Record a violation. `sig` groups violations (property-level failure
    /// class); the minimal case (shortest, then lexicographically least) of
    /// each signature is kept so the result is deterministic under
    /// parallelism.
    pub fn viol(&self, section: &str, sig: &str, case: impl Into<String>, detail: impl Into<String>) {
        let case = case.into();
        if let Some(c) = &self.only_case {
            if *c != case {
                return;
            }
        }
        let detail = detail.into();
        if std::env::var_os("VF_DUMP").is_some() {
            eprintln!("VIOL\t{}\t{}\t{}\t{}", section, sig, case, detail);
        }
        let mut v = self.viols.lock().unwrap();
        match v.get_mut(sig) {
            None => {
                v.insert(sig.to_string(), Viol { count: 1, section: section.to_string(), case, detail });
            }
            Some(e) => {
                e.count += 1;
                if (case.len(), &case) < (e.case.len(), &e.case) {
                    e.case = case;
                    e.detail = detail;
                    e.section = section.to_string();
                }
            }
        }
    }

    /// Like [`Report::viol`] for callers that aggregate locally (per zone):
    /// records `n` violations of signature `sig` of which `case` is the
    /// minimal one the caller saw. (Additive helper; `viol` is unchanged.)
    pub fn viol_n(&self, section: &str, sig: &str, case: impl Into<String>, detail: impl Into<String>, n: u64) {
        if n == 0 {
            return;
        }
        let case = case.into();
        if let Some(c) = &self.only_case {
            if *c != case {
                return;
            }
        }
        let detail = detail.into();
        if std::env::var_os("VF_DUMP").is_some() {
            eprintln!("VIOL\t{}\t{}\t{}\t{}\t(x{})", section, sig, case, detail, n);
        }
        let mut v = self.viols.lock().unwrap();
        match v.get_mut(sig) {
            None => {
                v.insert(sig.to_string(), Viol { count: n, section: section.to_string(), case, detail });
            }
            Some(e) => {
                e.count += n;
                if (case.len(), &case) < (e.case.len(), &e.case) {
                    e.case = case;
                    e.detail = detail;
                    e.section = section.to_string();
                }
            }
        }
    }

    pub fn n_viol_sigs(&self) -> usize {
        self.viols.lock().unwrap().len()
    }

    /// A non-vacuity requirement: failing it is an engine failure, not a verdict.
    pub fn require(&self, cond: bool, what: &str) {
        if !cond && self.only_section.is_none() {
            eprintln!("ENGINE-FAILURE: non-vacuity requirement not met: {}", what);
            self.notes.lock().unwrap().push(format!("NONVACUITY-FAILED: {}", what));
        }
    }

    /// Write the result file and exit. Exit code 0 always on a completed run
    /// (the driver decides the verdict from the file); 3 if a non-vacuity
    /// requirement failed.
    pub fn finish(self) -> ! {
        let viols: Vec<Value> = self
            .viols
            .lock()
            .unwrap()
            .iter()
            .map(|(sig, v)| {
                json!({"sig": sig, "count": v.count, "section": v.section, "case": v.case, "detail": v.detail})
            })
            .collect();
        let outcomes = self.outcomes.lock().unwrap().clone();
        let notes = self.notes.lock().unwrap().clone();
        let bad = notes.iter().any(|n| n.starts_with("NONVACUITY-FAILED"));
        let v = json!({
            "property_id": self.prop,
            "tier": if self.tier == Tier::Quick { "quick" } else { "thorough" },
            "flavour": self.flavour,
            "states": self.states.load(Ordering::Relaxed),
            "transitions": self.transitions.load(Ordering::Relaxed),
            "traces_validated_against_impl": self.validated.load(Ordering::Relaxed),
            "counters": *self.counters.lock().unwrap(),
            "outcomes": outcomes,
            "samples": *self.samples.lock().unwrap(),
            "violations": viols,
            "sections": self.sections.lock().unwrap().iter().map(|(n, t)| json!({"name": n, "wall_s": t})).collect::<Vec<_>>(),
            "notes": notes,
            "caps": *self.caps.lock().unwrap(),
            "wall_s": self.start.elapsed().as_secs_f64(),
            "replay_mode": self.only_section.is_some() || self.only_case.is_some(),
        });
        let text = serde_json::to_string_pretty(&v).unwrap();
        match &self.out {
            Some(p) => std::fs::write(p, text).expect("write result"),
            None => println!("{}", text),
        }
        if self.only_case.is_some() {
            // replay mode: print both sides
            for (sig, v) in self.viols.lock().unwrap().iter() {
                println!("REPRODUCED sig={}\n  case: {}\n  detail: {}", sig, v.case, v.detail);
            }
            if self.viols.lock().unwrap().is_empty() {
                println!("NOT-REPRODUCED");
            }
        }
        std::process::exit(if bad { 3 } else { 0 });
    }
}
