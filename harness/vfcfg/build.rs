//! Generates one `jiff::tz::include!` per installed zone (and per synthetic
//! zone, slim and fat) and one `jiff::tz::get!` per bundled zone.
use std::fmt::Write as _;
use std::path::{Path, PathBuf};

fn walk(dir: &Path, base: &Path, out: &mut Vec<String>) {
    let mut ents: Vec<PathBuf> = match std::fs::read_dir(dir) {
        Ok(r) => r.filter_map(|e| e.ok()).map(|e| e.path()).collect(),
        Err(_) => return,
    };
    ents.sort();
    for p in ents {
        let Ok(md) = std::fs::metadata(&p) else { continue };
        if md.is_dir() {
            let rel = p.strip_prefix(base).unwrap().to_string_lossy().into_owned();
            if rel == "right" || rel == "posix" {
                continue;
            }
            walk(&p, base, out);
        } else if md.is_file() {
            if let Ok(b) = std::fs::read(&p) {
                if b.len() >= 44 && &b[0..4] == b"TZif" {
                    out.push(p.strip_prefix(base).unwrap().to_string_lossy().into_owned());
                }
            }
        }
    }
}

fn main() {
    let out_dir = PathBuf::from(std::env::var("OUT_DIR").unwrap());
    println!("cargo:rerun-if-changed=build.rs");
    println!("cargo:rerun-if-changed=/verif/data/synth/synth.zi");
    println!("cargo:rerun-if-changed=/usr/share/zoneinfo/tzdata.zi");
    let mut src = String::new();
    let sys = Path::new("/usr/share/zoneinfo");
    let mut names = vec![];
    walk(sys, sys, &mut names);
    writeln!(src, "pub fn static_sys() -> Vec<(&'static str, jiff::tz::TimeZone)> {{ vec![").unwrap();
    for n in &names {
        writeln!(src, "  ({:?}, jiff::tz::include!({:?})),", n, format!("/usr/share/zoneinfo/{}", n)).unwrap();
    }
    writeln!(src, "] }}").unwrap();
    for mode in ["slim", "fat"] {
        let dir = out_dir.join(format!("synth-{}", mode));
        let _ = std::fs::remove_dir_all(&dir);
        std::fs::create_dir_all(&dir).unwrap();
        let st = std::process::Command::new("zic")
            .args(["-b", mode, "-d"])
            .arg(&dir)
            .arg("/verif/data/synth/synth.zi")
            .output()
            .expect("zic");
        assert!(st.status.success(), "zic failed: {}", String::from_utf8_lossy(&st.stderr));
        let mut sn = vec![];
        walk(&dir, &dir, &mut sn);
        writeln!(src, "pub fn static_synth_{}() -> Vec<(&'static str, &'static [u8], Option<jiff::tz::TimeZone>)> {{ vec![", mode).unwrap();
        for n in &sn {
            let path = dir.join(n);
            // zones jiff rejects at load time cannot be compiled in (that is C03's business)
            // zones whose footer rule has a transition outside its own UTC
            // year (F7) may be rejected by jiff's TZif parser at macro
            // expansion time, depending on the feature set; they are covered
            // through the runtime back-ends only.
            let skip = refmodel::tz::zone_from_tzif(&std::fs::read(&path).unwrap())
                .map(|z| z.pieces.iter().any(|p| p.crosses_year))
                .unwrap_or(true);
            if skip {
                writeln!(src, "  ({:?}, include_bytes!({:?}), None),", n, path).unwrap();
            } else {
                writeln!(src, "  ({:?}, include_bytes!({:?}), Some(jiff::tz::include!({:?}, {:?}))),", n, path, path, n).unwrap();
            }
        }
        writeln!(src, "] }}").unwrap();
    }
    writeln!(src, "pub fn static_bundled() -> Vec<(&'static str, jiff::tz::TimeZone)> {{ vec![").unwrap();
    for n in jiff_tzdb::available() {
        writeln!(src, "  ({:?}, jiff::tz::get!({:?})),", n, n).unwrap();
    }
    writeln!(src, "] }}").unwrap();
    std::fs::write(out_dir.join("static_zones.rs"), src).unwrap();
}
