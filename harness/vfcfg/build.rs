//! Generates one `jiff::tz::include!` per installed zone (and per synthetic
//! zone, slim and fat) and one `jiff::tz::get!` per bundled zone.
use std::fmt::Write as _;
use std::path::{Path, PathBuf};

fn walk(dir: &Path, base: &Path, out: &mut Vec<String>) {
    let mut ents: Vec<PathBuf> = match std::fs::read_dir(dir) {
        Ok(r) => r.filter_map(|e| e.ok()).map(|e| e.path()).collect(),
        Err(_) => return,
    };
    ents.sort();
    for p in ents {
        let Ok(md) = std::fs::metadata(&p) else { continue };
        if md.is_dir() {
            let rel = p.strip_prefix(base).unwrap().to_string_lossy().into_owned();
            if rel == "right" || rel == "posix" {
                continue;
            }
            walk(&p, base, out);
        } else if md.is_file() {
            if let Ok(b) = std::fs::read(&p) {
                if b.len() >= 44 && &b[0..4] == b"TZif" {
                    out.push(p.strip_prefix(base).unwrap().to_string_lossy().into_owned());
                }
            }
        }
    }
}

/// RFC 8536 3.3: the footer evaluated at the last recorded transition must
/// give that transition's local time type. zic 2.36 writes slim files that
/// break this (America/Ojinaga 2022); jiff's parser refuses them unless
/// tz-fat moves the check to the last *generated* transition, and a refused
/// file cannot be compiled in.
fn footer_disagrees_with_last_transition(bytes: &[u8]) -> bool {
    let Ok(raw) = refmodel::tz::parse_tzif(bytes) else { return false };
    let n = raw.times.len();
    let Some(f) = raw.footer.as_ref() else { return false };
    if n == 0 || f.is_empty() {
        return false;
    }
    let Ok(z) = refmodel::tz::zone_from_posix(f) else { return false };
    let t = raw.types[raw.idx[n - 1] as usize];
    let i = z.info_at(raw.times[n - 1]);
    let ab: Vec<u8> = raw.chars[t.2 as usize..].iter().copied().take_while(|&c| c != 0).collect();
    (i.utoff, i.dst, i.abbrev.as_bytes()) != (t.0, t.1, &ab[..])
}

fn main() {
    let out_dir = PathBuf::from(std::env::var("OUT_DIR").unwrap());
    println!("cargo:rerun-if-changed=build.rs");
    println!("cargo:rerun-if-changed=/verif/data/synth/synth.zi");
    println!("cargo:rerun-if-changed=/usr/share/zoneinfo/tzdata.zi");
    let fat = std::env::var_os("CARGO_FEATURE_FAT").is_some();
    let mut src = String::new();
    let sys = Path::new("/usr/share/zoneinfo");
    let mut names = vec![];
    walk(sys, sys, &mut names);
    writeln!(src, "pub fn static_sys() -> Vec<(&'static str, jiff::tz::TimeZone)> {{ vec![").unwrap();
    for n in &names {
        writeln!(src, "  ({:?}, jiff::tz::include!({:?})),", n, format!("/usr/share/zoneinfo/{}", n)).unwrap();
    }
    writeln!(src, "] }}").unwrap();
    for mode in ["slim", "fat"] {
        let dir = out_dir.join(format!("synth-{}", mode));
        let _ = std::fs::remove_dir_all(&dir);
        std::fs::create_dir_all(&dir).unwrap();
        let st = std::process::Command::new("zic")
            .args(["-b", mode, "-d"])
            .arg(&dir)
            .arg("/verif/data/synth/synth.zi")
            .output()
            .expect("zic");
        assert!(st.status.success(), "zic failed: {}", String::from_utf8_lossy(&st.stderr));
        let mut sn = vec![];
        walk(&dir, &dir, &mut sn);
        writeln!(src, "pub fn static_synth_{}() -> Vec<(&'static str, &'static [u8], Option<jiff::tz::TimeZone>)> {{ vec![", mode).unwrap();
        for n in &sn {
            let path = dir.join(n);
            // zones jiff rejects at load time cannot be compiled in (that is C03's business)
            // zones whose footer rule has a transition outside its own UTC
            // year (F7) may be rejected by jiff's TZif parser at macro
            // expansion time, depending on the feature set; they are covered
            // through the runtime back-ends only.
            let skip = refmodel::tz::zone_from_tzif(&std::fs::read(&path).unwrap())
                .map(|z| z.pieces.iter().any(|p| p.crosses_year))
                .unwrap_or(true);
            if skip {
                writeln!(src, "  ({:?}, include_bytes!({:?}), None),", n, path).unwrap();
            } else {
                writeln!(src, "  ({:?}, include_bytes!({:?}), Some(jiff::tz::include!({:?}, {:?}))),", n, path, path, n).unwrap();
            }
        }
        writeln!(src, "] }}").unwrap();
    }
    // `zic -b slim` output of the installed tzdata.zi (the upstream default
    // encoding, main data form: negative DST in Europe/Dublin etc.): bytes for
    // the runtime routes plus one `include!` per zone. (The fat output is
    // byte-identical to the installed files, which `static_sys` covers.)
    {
        let dir = out_dir.join("zic-slim");
        let _ = std::fs::remove_dir_all(&dir);
        std::fs::create_dir_all(&dir).unwrap();
        let st = std::process::Command::new("zic")
            .args(["-b", "slim", "-d"])
            .arg(&dir)
            .arg("/usr/share/zoneinfo/tzdata.zi")
            .output()
            .expect("zic");
        assert!(st.status.success(), "zic failed: {}", String::from_utf8_lossy(&st.stderr));
        let mut sn = vec![];
        walk(&dir, &dir, &mut sn);
        writeln!(src, "pub fn static_zic_slim() -> Vec<(&'static str, &'static [u8], Option<jiff::tz::TimeZone>)> {{ vec![").unwrap();
        for n in &sn {
            let path = dir.join(n);
            let bytes = std::fs::read(&path).unwrap();
            let skip = refmodel::tz::zone_from_tzif(&bytes)
                .map(|z| z.pieces.iter().any(|p| p.crosses_year))
                .unwrap_or(true)
                || (!fat && footer_disagrees_with_last_transition(&bytes));
            if skip {
                writeln!(src, "  ({:?}, include_bytes!({:?}), None),", n, path).unwrap();
            } else {
                writeln!(src, "  ({:?}, include_bytes!({:?}), Some(jiff::tz::include!({:?}, {:?}))),", n, path, path, n).unwrap();
            }
        }
        writeln!(src, "] }}").unwrap();
    }
    writeln!(src, "pub fn static_bundled() -> Vec<(&'static str, jiff::tz::TimeZone)> {{ vec![").unwrap();
    for n in jiff_tzdb::available() {
        writeln!(src, "  ({:?}, jiff::tz::get!({:?})),", n, n).unwrap();
    }
    writeln!(src, "] }}").unwrap();
    std::fs::write(out_dir.join("static_zones.rs"), src).unwrap();
}
