//! C18: all ways of loading a time zone give the same zone.
//!
//! Compiled twice (feature `fat` = jiff's `tz-fat` on / off). In each
//! configuration every zone is loaded through every back-end and the canonical
//! *answer streams* (offset info at P(z), civil classification at C(z), first
//! following/preceding items, printed forms) are compared line by line; a
//! digest of the raw-bytes stream is written out so that the driver can
//! compare the two configurations with each other.
//!
//! Routes x data (coverage extension): besides the installed (fat) files and
//! the bundled (slim, rearguard) data, the `zic -b slim` compilation of the
//! installed tzdata.zi and the synthetic zones (slim and fat) are materialised
//! as a zoneinfo directory and as a concatenated file (adversarial layout:
//! shifted index, data block in reverse order with padding, non-zero raw
//! offsets, trailing zone.tab) and every zone is read through
//! `from_dir`, `from_concatenated_path`, `TimeZone::tzif` and `include!`.
//! `TimeZone ==` is demanded between runtime routes that were given the same
//! identifier and the same bytes (documented: identifiers and checksums).
//!
//! Names: one oracle for every query - `get(q)` succeeds exactly when `q`
//! equals an identifier of the database ignoring ASCII case, and then returns
//! that identifier's zone under its canonical spelling. Queried per database
//! kind: every identifier, its case variants (warm database, and as the first
//! query on a cold database, where the variant reaches the name index / the
//! linear scan instead of the cache of loaded zones), mutations (neighbouring
//! separators, path forms, truncations); and on a synthetic database of names
//! that are neighbours in every sort order the complete set of short strings.
//!
//! POSIX: besides the C03 alphabet and every footer of every corpus, the
//! *spellings* of the grammar; the printed form is parsed by both entry points
//! and by the reference reader, and printing is a fixed point.
//!
//! `VFCFG_SCRATCH` overrides the scratch directory (/verif/.build/zones).

#[path = "../../vf/src/guard.rs"]
#[allow(dead_code)]
mod guard;
#[path = "../../vf/src/report.rs"]
#[allow(dead_code)]
mod report;

include!(concat!(env!("OUT_DIR"), "/static_zones.rs"));

use guard::{guard, panic_sig};
use jiff::civil::DateTime;
use jiff::fmt::temporal::{DateTimeParser, DateTimePrinter};
use jiff::tz::{AmbiguousOffset, TimeZone, TimeZoneDatabase};
use jiff::{Timestamp, Zoned};
use rayon::prelude::*;
use refmodel::{cal, tz as rtz};
use report::Report;
use serde_json::json;
use std::collections::{BTreeMap, BTreeSet, HashMap};
use std::hash::{Hash, Hasher};
use std::path::{Path, PathBuf};
use std::sync::Mutex;

const NS: i128 = 1_000_000_000;
const TS_MIN_SEC: i64 = -377705023201;
const TS_MAX_SEC: i64 = 253402207200;
const SYS: &str = "/usr/share/zoneinfo";

fn walk(dir: &Path, base: &Path, skip_top: &[&str], out: &mut Vec<(String, Vec<u8>)>) {
    let mut ents: Vec<PathBuf> = match std::fs::read_dir(dir) {
        Ok(r) => r.filter_map(|e| e.ok()).map(|e| e.path()).collect(),
        Err(_) => return,
    };
    ents.sort();
    for p in ents {
        let Ok(md) = std::fs::metadata(&p) else { continue };
        if md.is_dir() {
            let rel = p.strip_prefix(base).unwrap().to_string_lossy().into_owned();
            if skip_top.contains(&rel.as_str()) {
                continue;
            }
            walk(&p, base, skip_top, out);
        } else if md.is_file() {
            if let Ok(b) = std::fs::read(&p) {
                if b.len() >= 44 && &b[0..4] == b"TZif" {
                    out.push((p.strip_prefix(base).unwrap().to_string_lossy().into_owned(), b));
                }
            }
        }
    }
}

/// Scratch directory for generated zoneinfo trees / concatenated files.
fn scratch_dir() -> PathBuf {
    PathBuf::from(std::env::var("VFCFG_SCRATCH").unwrap_or_else(|_| "/verif/.build/zones".to_string()))
}

fn zic(src: &str, mode: &str, tag: &str) -> (PathBuf, Vec<(String, Vec<u8>)>) {
    let dir = scratch_dir().join(format!("c18-{}-{}-{}", tag, mode, std::process::id()));
    let _ = std::fs::remove_dir_all(&dir);
    std::fs::create_dir_all(&dir).unwrap();
    let st = std::process::Command::new("zic").args(["-b", mode, "-d"]).arg(&dir).arg(src).output().expect("zic");
    assert!(st.status.success(), "zic: {}", String::from_utf8_lossy(&st.stderr));
    let mut v = vec![];
    walk(&dir, &dir, &[], &mut v);
    (dir, v)
}

/// Writes an Android-style concatenated tzdata file in the format that
/// `src/tz/concatenated.rs` reads: 24-byte header, 52-byte index entries,
/// data block.
fn write_concatenated(path: &Path, zones: &[(String, Vec<u8>)]) {
    let mut index = vec![];
    let mut data = vec![];
    for (name, bytes) in zones {
        if name.len() > 39 {
            continue;
        }
        let mut e = [0u8; 52];
        e[..name.len()].copy_from_slice(name.as_bytes());
        e[40..44].copy_from_slice(&(data.len() as u32).to_be_bytes());
        e[44..48].copy_from_slice(&(bytes.len() as u32).to_be_bytes());
        index.extend_from_slice(&e);
        data.extend_from_slice(bytes);
    }
    let mut out = vec![];
    out.extend_from_slice(b"tzdata2025b\0");
    let index_off = 24u32;
    let data_off = index_off + index.len() as u32;
    let tab_off = data_off + data.len() as u32;
    out.extend_from_slice(&index_off.to_be_bytes());
    out.extend_from_slice(&data_off.to_be_bytes());
    out.extend_from_slice(&tab_off.to_be_bytes());
    out.extend_from_slice(&index);
    out.extend_from_slice(&data);
    std::fs::write(path, out).unwrap();
}

/// The same format with everything the format leaves free chosen
/// differently: the index does not start right after the header, the data
/// block holds the zones in reverse index order with padding between them,
/// the (unused) raw-offset field is non-zero and a zone.tab section follows
/// the data block. A reader that slices `[data_offset + start, +len)` as the
/// format says reads the same bytes as from the plain layout.
fn write_concatenated_adversarial(path: &Path, zones: &[(String, Vec<u8>)]) {
    let kept: Vec<&(String, Vec<u8>)> = zones.iter().filter(|z| z.0.len() <= 39).collect();
    let mut data = vec![];
    let mut at: Vec<(u32, u32)> = vec![(0, 0); kept.len()];
    for (i, (_, bytes)) in kept.iter().enumerate().rev() {
        data.extend_from_slice(&[0xFFu8; 7][..1 + i % 7]);
        at[i] = (data.len() as u32, bytes.len() as u32);
        data.extend_from_slice(bytes);
    }
    let mut index = vec![];
    for (i, (name, _)) in kept.iter().enumerate() {
        let mut e = [0u8; 52];
        e[..name.len()].copy_from_slice(name.as_bytes());
        e[40..44].copy_from_slice(&at[i].0.to_be_bytes());
        e[44..48].copy_from_slice(&at[i].1.to_be_bytes());
        e[48..52].copy_from_slice(&(0x0036_EE80u32 + i as u32).to_be_bytes());
        index.extend_from_slice(&e);
    }
    let mut out = vec![];
    out.extend_from_slice(b"tzdata2025b\0");
    let index_off = 24u32 + 16;
    let data_off = index_off + index.len() as u32;
    let tab_off = data_off + data.len() as u32;
    out.extend_from_slice(&index_off.to_be_bytes());
    out.extend_from_slice(&data_off.to_be_bytes());
    out.extend_from_slice(&tab_off.to_be_bytes());
    out.extend_from_slice(&[0xEEu8; 16]);
    out.extend_from_slice(&index);
    out.extend_from_slice(&data);
    out.extend_from_slice(b"# zone.tab\nAD\t+4230+00131\tEurope/Andorra\nTZif2 not a zone\n");
    std::fs::write(path, out).unwrap();
}

/// Writes the given zones as a zoneinfo directory tree.
fn materialize(dir: &Path, zones: &[(String, Vec<u8>)]) {
    let _ = std::fs::remove_dir_all(dir);
    std::fs::create_dir_all(dir).unwrap();
    for (name, bytes) in zones {
        let p = dir.join(name);
        std::fs::create_dir_all(p.parent().unwrap()).unwrap();
        std::fs::write(p, bytes).unwrap();
    }
}

/// A minimal version-2 TZif file: no transitions, one local time type, footer.
fn mk_tzif(utoff: i32, abbrev: &str) -> Vec<u8> {
    let mut out = vec![];
    for v2 in [false, true] {
        out.extend_from_slice(b"TZif2");
        out.extend_from_slice(&[0u8; 15]);
        // isutcnt, isstdcnt, leapcnt, timecnt, typecnt, charcnt
        for n in [0u32, 0, 0, 0, 1, abbrev.len() as u32 + 1] {
            out.extend_from_slice(&n.to_be_bytes());
        }
        let _ = v2; // no transitions: the two data blocks have the same layout
        out.extend_from_slice(&utoff.to_be_bytes());
        out.push(0);
        out.push(0);
        out.extend_from_slice(abbrev.as_bytes());
        out.push(0);
    }
    let p = -(utoff as i64);
    let (sign, a) = (if p < 0 { "-" } else { "" }, p.abs());
    out.extend_from_slice(format!("\n{}{}{}:{:02}:{:02}\n", abbrev, sign, a / 3600, a / 60 % 60, a % 60).as_bytes());
    out
}

#[derive(Clone)]
struct Probes {
    instants: Vec<i128>,
    civils: Vec<i128>,
    iter_starts: Vec<i128>,
}

fn year_of(t: i64) -> i64 {
    cal::civil_from_days(t.div_euclid(86400)).0
}

fn probes(models: &[&rtz::Zone], thorough: bool) -> Probes {
    let mut p = Probes { instants: vec![], civils: vec![], iter_starts: vec![] };
    let tmin = TS_MIN_SEC as i128 * NS;
    let tmax = TS_MAX_SEC as i128 * NS + 999_999_999;
    p.instants.extend([tmin, tmin + 1, -1, 0, 1, tmax - 1, tmax]);
    let dmin = cal::min_day() as i128 * 86400 * NS;
    let dmax = (cal::max_day() as i128 + 1) * 86400 * NS - 1;
    p.civils.extend([dmin, dmin + 90_000 * NS, 0, dmax - 90_000 * NS, dmax]);
    p.iter_starts.extend([tmin, 0, tmax]);
    for z in models {
        let last_rec = z.pieces.iter().filter(|x| x.recorded).map(|x| x.start).max().unwrap_or(0);
        let y0 = year_of(last_rec.max(TS_MIN_SEC));
        for k in 1..z.pieces.len() {
            let pc = &z.pieces[k];
            if pc.start <= TS_MIN_SEC || pc.start > TS_MAX_SEC {
                continue;
            }
            if !pc.recorded {
                let y = pc.rule_year;
                // every rule year up to the tz-fat horizon (2037): with tz-fat these
                // are generated table entries (in the runtime parser and in the
                // macro's copy of it), without it they are evaluated from the rule
                let keep = (y0..y0 + 3).contains(&y) || (1900..=2040).contains(&y) || y == 2100 || y >= 9997 || (thorough && y % 37 == 0);
                if !keep {
                    continue;
                }
            }
            let b = pc.start as i128 * NS;
            for d in [-NS, -NS / 2, -1, 0, 1, NS] {
                let t = b + d;
                if t >= tmin && t <= tmax {
                    p.instants.push(t);
                }
            }
            p.iter_starts.push(b);
            if b - 1 >= tmin {
                p.iter_starts.push(b - 1);
            }
            let o1 = z.infos[z.pieces[k - 1].info as usize].utoff as i128;
            let o2 = z.infos[pc.info as usize].utoff as i128;
            let (lo, hi) = ((pc.start as i128 + o1.min(o2)) * NS, (pc.start as i128 + o1.max(o2)) * NS);
            for c in [lo - NS, lo - 1, lo, lo + (hi - lo) / 2, hi - 1, hi, hi + NS] {
                if c >= dmin && c <= dmax {
                    p.civils.push(c);
                }
            }
        }
    }
    p.instants.sort();
    p.instants.dedup();
    p.civils.sort();
    p.civils.dedup();
    p.iter_starts.sort();
    p.iter_starts.dedup();
    p
}

/// The same probe construction for a POSIX rule, from the rule itself (the
/// per-year transition instants of the reference evaluator) instead of a
/// materialised 20 000-year zone: both transitions of the boundary years of
/// the supported range, of the years around the epoch, of leap / non-leap /
/// century years and of the tz-fat horizon.
fn posix_probes(tz: &rtz::PosixTz) -> Probes {
    let mut p = Probes { instants: vec![], civils: vec![], iter_starts: vec![] };
    let tmin = TS_MIN_SEC as i128 * NS;
    let tmax = TS_MAX_SEC as i128 * NS + 999_999_999;
    p.instants.extend([tmin, tmin + 1, -1, 0, 1, tmax - 1, tmax]);
    let dmin = cal::min_day() as i128 * 86400 * NS;
    let dmax = (cal::max_day() as i128 + 1) * 86400 * NS - 1;
    p.civils.extend([dmin, dmin + 90_000 * NS, 0, dmax - 90_000 * NS, dmax]);
    p.iter_starts.extend([tmin, 0, tmax]);
    if let Some(d) = &tz.dst {
        let (so, dof) = (tz.std_utoff as i128, d.utoff as i128);
        for y in [-9999i64, -9998, -9997, 0, 1, 1900, 1969, 1970, 1971, 2000, 2023, 2024, 2037, 2038, 2039, 2100, 9997, 9998, 9999] {
            let Some((s, e)) = tz.year_transitions(y) else { continue };
            for (t, o1, o2) in [(s, so, dof), (e, dof, so)] {
                if t <= TS_MIN_SEC || t > TS_MAX_SEC {
                    continue;
                }
                let b = t as i128 * NS;
                for dl in [-NS, -NS / 2, -1, 0, 1, NS] {
                    let x = b + dl;
                    if x >= tmin && x <= tmax {
                        p.instants.push(x);
                    }
                }
                p.iter_starts.push(b);
                if b - 1 >= tmin {
                    p.iter_starts.push(b - 1);
                }
                let (lo, hi) = ((t as i128 + o1.min(o2)) * NS, (t as i128 + o1.max(o2)) * NS);
                for c in [lo - NS, lo - 1, lo, lo + (hi - lo) / 2, hi - 1, hi, hi + NS] {
                    if c >= dmin && c <= dmax {
                        p.civils.push(c);
                    }
                }
            }
        }
    }
    p.instants.sort();
    p.instants.dedup();
    p.civils.sort();
    p.civils.dedup();
    p.iter_starts.sort();
    p.iter_starts.dedup();
    p
}

fn dt_from_civil_ns(n: i128) -> DateTime {
    let day = n.div_euclid(86400 * NS) as i64;
    let rem = n.rem_euclid(86400 * NS);
    let (y, m, d) = cal::civil_from_days(day);
    let s = (rem / NS) as i64;
    DateTime::new(y as i16, m as i8, d as i8, (s / 3600) as i8, ((s / 60) % 60) as i8, (s % 60) as i8, (rem % NS) as i32).unwrap()
}

/// The canonical answer stream. `with_iters`: include the raw iterator items
/// (not meaningful when comparing slim with fat data: recorded no-op entries differ).
fn stream(tz: &TimeZone, p: &Probes, with_iters: bool, with_name: bool) -> Result<Vec<String>, String> {
    guard(|| {
        let mut out = Vec::with_capacity(p.instants.len() + p.civils.len() + 8);
        if with_name {
            out.push(format!("N {:?}", tz.iana_name()));
            // printing of the zone itself: Debug, the Temporal printer, classification
            out.push(format!("ZD {:?} unknown={} fixed={:?}", tz, tz.is_unknown(), tz.to_fixed_offset().ok().map(|o| o.seconds())));
            let mut printed = String::new();
            let res = DateTimePrinter::new().print_time_zone(tz, &mut printed).map_err(|e| e.to_string());
            out.push(format!("ZP {:?} {:?}", printed, res));
        }
        for &t in &p.instants {
            let ts = Timestamp::from_nanosecond(t).unwrap();
            let i = tz.to_offset_info(ts);
            out.push(format!("I {} {} {} {} {}", t, i.offset().seconds(), i.dst().is_dst(), i.abbreviation(), tz.to_datetime(ts)));
        }
        for &c in &p.civils {
            let dt = dt_from_civil_ns(c);
            let a = tz.to_ambiguous_timestamp(dt);
            let cls = match a.offset() {
                AmbiguousOffset::Unambiguous { offset } => format!("U {}", offset.seconds()),
                AmbiguousOffset::Gap { before, after } => format!("G {} {}", before.seconds(), after.seconds()),
                AmbiguousOffset::Fold { before, after } => format!("F {} {}", before.seconds(), after.seconds()),
            };
            out.push(format!("C {} {} {:?}", dt, cls, a.compatible().ok().map(|t| t.as_nanosecond())));
        }
        if with_iters {
            for &s in &p.iter_starts {
                let ts = Timestamp::from_nanosecond(s).unwrap();
                let f: Vec<String> = tz.following(ts).take(3).map(|t| format!("{}/{}/{}/{}", t.timestamp().as_second(), t.offset().seconds(), t.dst().is_dst(), t.abbreviation())).collect();
                let b: Vec<String> = tz.preceding(ts).take(3).map(|t| format!("{}/{}/{}/{}", t.timestamp().as_second(), t.offset().seconds(), t.dst().is_dst(), t.abbreviation())).collect();
                out.push(format!("T {} f={:?} p={:?}", s, f, b));
            }
        } else {
            // the info-changing transitions only, to exhaustion
            let mut last: Option<(i32, bool, String)> = None;
            let i0 = tz.to_offset_info(Timestamp::MIN);
            last.replace((i0.offset().seconds(), i0.dst().is_dst(), i0.abbreviation().to_string()));
            let mut n = 0;
            for t in tz.following(Timestamp::MIN).take(60_000) {
                let cur = (t.offset().seconds(), t.dst().is_dst(), t.abbreviation().to_string());
                if Some(&cur) != last.as_ref() {
                    out.push(format!("X {} {:?}", t.timestamp().as_second(), cur));
                    last = Some(cur);
                    n += 1;
                }
            }
            out.push(format!("X# {}", n));
        }
        for &t in [p.instants[p.instants.len() / 3], p.instants[p.instants.len() / 2]].iter() {
            let z = Zoned::new(Timestamp::from_nanosecond(t).unwrap(), tz.clone());
            if with_name {
                out.push(format!("Z {}", z));
                out.push(format!("ZG {:?}", z));
                out.push(format!("ZS {:?}", z.strftime("%Z|%Q|%:Q|%z|%:z").to_string()));
            } else {
                out.push(format!("Z {} {}", z.datetime(), z.offset()));
            }
        }
        out
    })
}

fn digest(lines: &[String]) -> String {
    let mut h = std::collections::hash_map::DefaultHasher::new();
    for l in lines {
        l.hash(&mut h);
    }
    format!("{:016x}/{}", h.finish(), lines.len())
}

/// Input-derived classes used to key known findings across configurations.
fn flags(bytes: &[u8]) -> String {
    let mut out: Vec<&str> = vec![];
    if let Ok(m) = rtz::zone_from_tzif(bytes) {
        if m.pieces.iter().any(|p| p.crosses_year) {
            out.push("footer-rule-transition-outside-its-utc-year");
        }
    }
    if let Ok(raw) = rtz::parse_tzif(bytes) {
        let n = raw.times.len();
        if let Some(Ok(tz)) = raw.footer.as_ref().map(|f| rtz::parse_posix(f)) {
            if n >= 2 && tz.dst.is_some() {
                let (a, b) = (raw.types[raw.idx[n - 1] as usize], raw.types[raw.idx[n - 2] as usize]);
                let same = a.0 == b.0 && a.1 == b.1;
                let y = year_of(raw.times[n - 1]);
                let at_rule = (y - 1..=y + 1).any(|yy| {
                    let (s, e) = tz.year_transitions(yy).unwrap();
                    s == raw.times[n - 1] || e == raw.times[n - 1]
                });
                if same && at_rule {
                    out.push("last-recorded-transition-is-noop-at-a-footer-rule-instant");
                }
            }
        }
        // RFC 8536 3.3 demands that the footer, evaluated at the last recorded
        // transition, gives that transition's type; zic 2.36 -b slim breaks it
        // for America/Ojinaga (2022-10-30: recorded CST, footer still says CDT)
        if n >= 1 {
            if let Some(Ok(z)) = raw.footer.as_ref().filter(|f| !f.is_empty()).map(|f| rtz::zone_from_posix(f)) {
                let t = raw.types[raw.idx[n - 1] as usize];
                let i = z.info_at(raw.times[n - 1]);
                let ab: Vec<u8> = raw.chars[t.2 as usize..].iter().copied().take_while(|&c| c != 0).collect();
                if (i.utoff, i.dst, i.abbrev.as_bytes()) != (t.0, t.1, &ab[..]) {
                    out.push("footer-disagrees-with-the-last-recorded-transition");
                }
            }
        }
    }
    out.join(",")
}

fn put(d: &Mutex<BTreeMap<String, String>>, key: String, lines: &[String], flag: impl AsRef<str>) {
    let flag = flag.as_ref();
    if std::env::var("VFCFG_DUMP").ok().as_deref() == Some(key.as_str()) {
        for l in lines {
            println!("{}", l);
        }
    }
    // per line-kind digests so that a difference can be attributed
    let mut parts = vec![];
    for kind in ["I", "C", "T", "Z"] {
        let sel: Vec<String> = lines.iter().filter(|l| l.starts_with(kind)).cloned().collect();
        parts.push(format!("{}={}", kind, digest(&sel)));
    }
    d.lock().unwrap().insert(key, format!("{}|{}", parts.join(","), flag));
}

fn first_diff(a: &[String], b: &[String]) -> Option<String> {
    for i in 0..a.len().max(b.len()) {
        let (x, y) = (a.get(i), b.get(i));
        if x != y {
            return Some(format!("line {}: {:?} vs {:?}", i, x, y));
        }
    }
    None
}

/// One way of obtaining the zone `name`: `None` = not applicable to this name.
struct Route<'a> {
    be: &'static str,
    /// a runtime route builds the zone with `TimeZone::tzif(name, bytes)`
    /// internally: documented `TimeZone ==` (identifier + checksum) applies
    runtime: bool,
    get: Box<dyn Fn(&str) -> Option<Result<TimeZone, String>> + Sync + Send + 'a>,
}

struct Ctx<'a> {
    r: &'a Report,
    digests: &'a Mutex<BTreeMap<String, String>>,
    cfg: &'a str,
    thorough: bool,
}

/// Loads `bytes` as `name` with `TimeZone::tzif` (the base route), produces its
/// answer stream and compares every other route with it. `key`: digest key for
/// the cross-configuration comparison (None = the same bytes are keyed by
/// another section). `reject_ok`: the data may legitimately be refused by
/// `TimeZone::tzif` (synthetic F7 zones without tz-fat); every route must then
/// refuse it as well.
fn compare_routes(cx: &Ctx, sec: &str, tag: &str, name: &str, bytes: &[u8], routes: &[Route], key: Option<String>, reject_ok: bool) -> Option<Vec<String>> {
    let r = cx.r;
    let case = format!("{} {}:{}", cx.cfg, tag, name);
    let Ok(model) = rtz::zone_from_tzif(bytes) else {
        r.count("zones_the_reference_reader_rejects", 1);
        return None;
    };
    let p = probes(&[&model], cx.thorough);
    let base = match guard(|| TimeZone::tzif(name, bytes)) {
        Ok(Ok(t)) => t,
        Ok(Err(e)) if reject_ok => {
            if let Some(k) = key {
                cx.digests.lock().unwrap().insert(k, format!("LOAD-FAILS|{}", flags(bytes)));
            }
            r.count("zones_rejected_by_tzif(bytes)", 1);
            for rt in routes {
                if let Some(Ok(_)) = guard(|| (rt.get)(name)).unwrap_or(None) {
                    r.viol(sec, &format!("{}/loads-data-that-tzif(bytes)-rejects", rt.be), case.clone(), format!("tzif(bytes): {}", e));
                } else {
                    r.add_validated(1);
                }
            }
            return None;
        }
        other => {
            r.viol(sec, "tzif(bytes)/load", case.clone(), format!("{:?}", other.map(|x| x.map(|_| ()).map_err(|e| e.to_string()))));
            return None;
        }
    };
    let sb = match stream(&base, &p, true, true) {
        Ok(s) => s,
        Err(pn) => {
            r.viol(sec, &format!("tzif(bytes)/{}", panic_sig(&pn)), case.clone(), pn);
            return None;
        }
    };
    if let Some(k) = key {
        put(cx.digests, k, &sb[1..], flags(bytes));
    }
    r.add_states(1);
    r.add_transitions(sb.len() as u64);
    for rt in routes {
        let got = match guard(|| (rt.get)(name)) {
            Err(pn) => {
                r.viol(sec, &format!("{}/{}", rt.be, panic_sig(&pn)), case.clone(), pn);
                continue;
            }
            Ok(None) => continue,
            Ok(Some(x)) => x,
        };
        r.count(&format!("zones_through_{}", rt.be), 1);
        match got {
            Err(e) => r.viol(sec, &format!("{}/lookup-fails", rt.be), case.clone(), e),
            Ok(tz) => match stream(&tz, &p, true, true) {
                Err(pn) => r.viol(sec, &format!("{}/{}", rt.be, panic_sig(&pn)), case.clone(), pn),
                Ok(s) => {
                    r.add_validated(s.len() as u64);
                    r.add_transitions(s.len() as u64);
                    let diff = if name == "UTC" && rt.runtime {
                        // the exact query "UTC" is answered with the built-in UTC
                        // zone by the directory and concatenated back-ends: its
                        // Debug form and `to_fixed_offset` are those of another
                        // kind of zone (not claimed); everything else is compared
                        r.count("zone_debug_form_not_claimed_for_builtin_utc", 1);
                        let f = |v: &[String]| v.iter().filter(|l| !l.starts_with("ZD ")).cloned().collect::<Vec<_>>();
                        first_diff(&f(&sb), &f(&s))
                    } else {
                        first_diff(&sb, &s)
                    };
                    if let Some(d) = diff {
                        r.viol(sec, &format!("{}/stream-differs-from-tzif(bytes)", rt.be), case.clone(), d);
                    }
                    // TimeZone ==: "two IANA time zones are equal when their
                    // identifiers are equal and checksums of their rules are
                    // equal". The built-in UTC that the directory and the
                    // concatenated back-ends return for the exact query "UTC"
                    // is another kind of zone (not claimed, see DESIGN 5.3).
                    if rt.runtime {
                        if name == "UTC" {
                            r.count("timezone_eq_not_claimed_for_builtin_utc", 1);
                        } else {
                            r.add_validated(1);
                            r.count("timezone_eq_checked_between_runtime_routes", 1);
                            if tz != base || base != tz {
                                r.viol(sec, &format!("{}/TimeZone-ne-tzif(bytes)-for-the-same-identifier-and-data", rt.be), case.clone(), format!("{:?} != {:?}", tz, base));
                            }
                        }
                    } else {
                        // static zones: equality with a runtime zone is not
                        // claimed by the property (counted); a static zone
                        // equals itself and its clone
                        r.outcome(if tz == base { "static_eq_runtime_zone" } else { "static_ne_runtime_zone" }, 1);
                        let c = tz.clone();
                        if tz != c || c != tz {
                            r.viol(sec, &format!("{}/TimeZone-ne-its-own-clone", rt.be), case.clone(), format!("{:?}", tz));
                        }
                    }
                }
            },
        }
    }
    Some(sb)
}

fn main() {
    let r = Report::from_args("C18");
    let cfg = if cfg!(feature = "fat") { "tz-fat=on" } else { "tz-fat=off" };
    let args: Vec<String> = std::env::args().collect();
    let digest_out = args.iter().position(|a| a == "--digests").map(|i| args[i + 1].clone());
    let digests: Mutex<BTreeMap<String, String>> = Mutex::new(BTreeMap::new());
    let thorough = r.thorough();
    let scratch = scratch_dir();
    std::fs::create_dir_all(&scratch).unwrap();
    let pid = std::process::id();
    let cx = Ctx { r: &r, digests: &digests, cfg, thorough };

    // ---------------------------------------------------------------- sys
    let mut sysz: Vec<(String, Vec<u8>)> = vec![];
    walk(Path::new(SYS), Path::new(SYS), &["right", "posix"], &mut sysz);
    let concat_path = scratch.join(format!("c18-concat-{}.dat", pid));
    write_concatenated(&concat_path, &sysz);
    // `jiff::tz::db()` is the zoneinfo directory back-end over SYS unless the
    // environment says otherwise
    let global_is_sys = std::env::var_os("TZDIR").is_none() && format!("{:?}", jiff::tz::db()).contains(SYS);

    r.section("sys-backends", || {
        let db_dir = TimeZoneDatabase::from_dir(SYS).expect("from_dir");
        let db_cat = TimeZoneDatabase::from_concatenated_path(&concat_path).expect("from_concatenated_path");
        let st: BTreeMap<&'static str, TimeZone> = static_sys().into_iter().collect();
        r.count("static_include_zones", st.len() as u64);
        let mut routes: Vec<Route> = vec![
            Route { be: "zoneinfo-dir", runtime: true, get: Box::new(|n| Some(db_dir.get(n).map_err(|e| e.to_string()))) },
            Route { be: "concatenated", runtime: true, get: Box::new(|n| if n.len() <= 39 { Some(db_cat.get(n).map_err(|e| e.to_string())) } else { None }) },
            Route { be: "static-include", runtime: false, get: Box::new(|n| st.get(n).map(|t| Ok(t.clone()))) },
        ];
        if global_is_sys {
            routes.push(Route { be: "global-db", runtime: true, get: Box::new(|n| Some(TimeZone::get(n).map_err(|e| e.to_string()))) });
        } else {
            r.count("global_db_is_not_the_installed_directory", 1);
        }
        sysz.par_iter().for_each(|(name, bytes)| {
            let sb = compare_routes(&cx, "sys-backends", "sys", name, bytes, &routes, Some(format!("sys:{}", name)), false);
            if let (Some(sb), true) = (sb, name == "America/New_York") {
                r.sample(json!({"config": cfg, "zone": name, "stream_lines": sb.len(), "first": sb[..5.min(sb.len())], "backends": ["tzif(bytes)", "zoneinfo-dir", "concatenated", "static-include", "global-db"]}));
            }
        });
    });

    // ---------------------------------------------------------------- bundled
    r.section("bundled-backends", || {
        let db = TimeZoneDatabase::bundled();
        let st: BTreeMap<&'static str, TimeZone> = static_bundled().into_iter().collect();
        let names: Vec<&'static str> = jiff_tzdb::available().collect();
        r.count("bundled_names", names.len() as u64);
        let routes: Vec<Route> = vec![
            Route { be: "bundled-db", runtime: true, get: Box::new(|n| Some(db.get(n).map_err(|e| e.to_string()))) },
            Route { be: "static-get", runtime: false, get: Box::new(|n| st.get(n).map(|t| Ok(t.clone()))) },
        ];
        names.par_iter().for_each(|name| {
            let Some((canon, bytes)) = jiff_tzdb::get(name) else {
                r.viol("bundled-backends", "jiff_tzdb::get/listed-name-not-found", format!("{} bundled:{}", cfg, name), "None");
                return;
            };
            if canon != *name {
                r.viol("bundled-backends", "jiff_tzdb::get/canonical-name-differs", format!("{} bundled:{}", cfg, name), canon);
                return;
            }
            compare_routes(&cx, "bundled-backends", "bundled", name, bytes, &routes, Some(format!("bundled:{}", name)), false);
        });
    });

    // ---------------------------------------------------------------- synthetic, static macro and slim vs fat
    let synth_slim = static_synth_slim();
    let synth_fat = static_synth_fat();
    r.section("synth", || {
        for (set, tag) in [(&synth_slim, "synth-slim"), (&synth_fat, "synth-fat")] {
            for (name, bytes, stz) in set.iter() {
                let routes: Vec<Route> = vec![Route { be: "static-include", runtime: false, get: Box::new(|_| stz.clone().map(Ok)) }];
                compare_routes(&cx, "synth", tag, name, bytes, &routes, Some(format!("{}:{}", tag, name)), true);
            }
        }
        // slim vs fat of the same rules
        for (name, sbytes, _) in synth_slim.iter() {
            let Some((_, fbytes, _)) = synth_fat.iter().find(|x| x.0 == *name) else { continue };
            slim_vs_fat(&r, "synth", cfg, name, sbytes, fbytes, thorough);
        }
    });

    r.section("tzdata-slim-vs-fat", || {
        let (d1, slim) = zic("/usr/share/zoneinfo/tzdata.zi", "slim", "tzdata");
        let (d2, fat) = zic("/usr/share/zoneinfo/tzdata.zi", "fat", "tzdata");
        let fatm: BTreeMap<&str, &Vec<u8>> = fat.iter().map(|(n, b)| (n.as_str(), b)).collect();
        slim.par_iter().for_each(|(name, sbytes)| {
            if let Some(fbytes) = fatm.get(name.as_str()) {
                slim_vs_fat(&r, "tzdata-slim-vs-fat", cfg, name, sbytes, fbytes, thorough);
            }
        });
        let _ = std::fs::remove_dir_all(d1);
        let _ = std::fs::remove_dir_all(d2);
    });

    // ---------------------------------------------------------------- every route over slim and fat compilations
    // Two corpora, each materialised as a zoneinfo tree and as a concatenated
    // file in the adversarial layout:
    //   zic-slim = `zic -b slim` of the installed tzdata.zi (bytes embedded at
    //              build time, one `include!` each) + the synthetic zones, slim;
    //   zic-fat  = the installed files (byte-identical to `zic -b fat`) + the
    //              synthetic zones, fat.
    let zic_slim = static_zic_slim();
    r.section("zic-backends", || {
        let slim_set: Vec<(String, Vec<u8>)> = zic_slim.iter().chain(synth_slim.iter()).map(|(n, b, _)| (n.to_string(), b.to_vec())).collect();
        let fat_set: Vec<(String, Vec<u8>)> = sysz.iter().cloned().chain(synth_fat.iter().map(|(n, b, _)| (n.to_string(), b.to_vec()))).collect();
        let st_slim: BTreeMap<&'static str, TimeZone> = zic_slim.iter().filter_map(|(n, _, t)| t.clone().map(|t| (*n, t))).collect();
        r.count("static_include_zones_zic_slim", st_slim.len() as u64);
        for (tag, set, st) in [("zic-slim", &slim_set, Some(&st_slim)), ("zic-fat", &fat_set, None)] {
            let dir = scratch.join(format!("c18-{}-tree-{}", tag, pid));
            let cat = scratch.join(format!("c18-{}-{}.dat", tag, pid));
            materialize(&dir, set);
            write_concatenated_adversarial(&cat, set);
            let db_dir = TimeZoneDatabase::from_dir(&dir).expect("from_dir");
            let db_cat = TimeZoneDatabase::from_concatenated_path(&cat).expect("from_concatenated_path");
            let routes: Vec<Route> = vec![
                Route { be: "zoneinfo-dir", runtime: true, get: Box::new(|n| Some(db_dir.get(n).map_err(|e| e.to_string()))) },
                Route { be: "concatenated", runtime: true, get: Box::new(|n| if n.len() <= 39 { Some(db_cat.get(n).map_err(|e| e.to_string())) } else { None }) },
                Route { be: "static-include", runtime: false, get: Box::new(|n| st.and_then(|m| m.get(n)).map(|t| Ok(t.clone()))) },
            ];
            set.par_iter().for_each(|(name, bytes)| {
                // the synthetic zones and the installed files have their digests from the sections above
                let key = if tag == "zic-slim" && !name.starts_with("Synth/") { Some(format!("zic-slim:{}", name)) } else { None };
                compare_routes(&cx, "zic-backends", tag, name, bytes, &routes, key, true);
                r.count(&format!("zones_in_{}", tag), 1);
            });
            // the listings of the two databases are exactly the corpus
            for (be, db) in [("zoneinfo-dir", &db_dir), ("concatenated", &db_cat)] {
                let mut listed: Vec<String> = db.available().map(|n| n.as_str().to_string()).collect();
                listed.sort();
                let mut want: Vec<String> = set.iter().map(|x| x.0.clone()).filter(|n| be == "zoneinfo-dir" || n.len() <= 39).collect();
                want.sort();
                r.add_validated(1);
                if listed != want {
                    let l: BTreeSet<&String> = listed.iter().collect();
                    let w: BTreeSet<&String> = want.iter().collect();
                    r.viol("zic-backends", &format!("{}/available-differs", be), format!("{} {} {}", cfg, tag, be), format!("{} listed vs {} expected; missing {:?}; unexpected {:?}", listed.len(), want.len(), w.difference(&l).take(3).collect::<Vec<_>>(), l.difference(&w).take(3).collect::<Vec<_>>()));
                }
            }
            let _ = std::fs::remove_dir_all(&dir);
            let _ = std::fs::remove_file(&cat);
        }
    });
    if r.only_section.is_none() {
        r.require(r.get_count("zones_in_zic-slim") >= 600 && r.get_count("zones_in_zic-fat") >= 600, "both compilations went through the directory and concatenated routes");
        r.require(r.get_count("static_include_zones_zic_slim") >= 550, "slim compilations compiled in by include!");
        r.require(r.get_count("timezone_eq_checked_between_runtime_routes") >= 4000, "TimeZone == compared between runtime routes");
        r.require(r.get_count("zones_through_concatenated") >= 1800 && r.get_count("zones_through_zoneinfo-dir") >= 1800, "directory and concatenated routes saw every corpus");
    }

    // ---------------------------------------------------------------- names
    r.section("names", || {
        // expected contents from the harness's own walk (posix/ and right/ included:
        // they are names of the directory database like any other)
        let mut sys_all: Vec<(String, Vec<u8>)> = vec![];
        walk(Path::new(SYS), Path::new(SYS), &[], &mut sys_all);
        // Identifiers reached through a symbolic link to a *directory* (Debian's
        // posix/Africa -> ../Africa) are not part of the directory database: its
        // walk treats symbolic links as files (said so in the walk itself; what
        // the database lists is what it looks up). Links to files are names.
        let n_all = sys_all.len();
        sys_all.retain(|(n, _)| {
            let mut p = PathBuf::from(SYS);
            let comps: Vec<&str> = n.split('/').collect();
            comps[..comps.len() - 1].iter().all(|c| {
                p.push(c);
                std::fs::symlink_metadata(&p).map(|m| m.is_dir()).unwrap_or(false)
            })
        });
        r.count("installed_names_behind_directory_symlinks_(not_in_the_database)", (n_all - sys_all.len()) as u64);
        let cat_all: Vec<(String, Vec<u8>)> = sysz.iter().filter(|z| z.0.len() <= 39).cloned().collect();
        let b_all: Vec<(String, Vec<u8>)> = jiff_tzdb::available().filter_map(|n| jiff_tzdb::get(n).map(|(_, b)| (n.to_string(), b.to_vec()))).collect();
        let mk_dir = || TimeZoneDatabase::from_dir(SYS).unwrap();
        let mk_cat = || TimeZoneDatabase::from_concatenated_path(&concat_path).unwrap();
        let mk_b = || {
            let d = TimeZoneDatabase::bundled();
            d.reset();
            d
        };
        names_battery(&cx, "names", "zoneinfo-dir", &mk_dir, &sys_all, &[]);
        names_battery(&cx, "names", "concatenated", &mk_cat, &cat_all, &[]);
        names_battery(&cx, "names", "bundled-db", &mk_b, &b_all, &[]);
    });

    // ---------------------------------------------------------------- names that are neighbours in every sort order
    // A synthetic database whose names differ only in case-sensitive ways, by
    // separators and by prefix: every 1- and 2-character string over an alphabet
    // that straddles the gaps of ASCII between digits, upper case, `_` and lower
    // case, under `Nb/`, plus top-level names around `/` itself. Each name has its
    // own offset, so a lookup that lands on a neighbour is seen in the behaviour.
    // Queried: the complete set of strings of length <= 3 over the alphabet and
    // its case flips, under three spellings of the prefix.
    r.section("name-neighbours", || {
        let alpha: Vec<char> = "+-._09BMZcny".chars().collect();
        let mut names: Vec<String> = vec![];
        for &a in &alpha {
            if a != '.' {
                names.push(format!("Nb/{}", a));
            }
            for &b in &alpha {
                if a != '.' {
                    names.push(format!("Nb/{}{}", a, b));
                }
            }
        }
        for t in ["Nb+B", "Nb-B", "Nb.B", "Nb0", "Nb_", "NbB", "Nbc", "Na", "Nc", "Nb+", "Nb-"] {
            names.push(t.to_string());
        }
        names.sort();
        let zones: Vec<(String, Vec<u8>)> = names
            .iter()
            .enumerate()
            .map(|(i, n)| {
                let abbr = format!("Q{}{}", (b'a' + (i / 26) as u8) as char, (b'a' + (i % 26) as u8) as char);
                (n.clone(), mk_tzif((i as i32 + 1) * 61, &abbr))
            })
            .collect();
        r.count("neighbour_names", zones.len() as u64);
        let mut qalpha: Vec<char> = alpha.clone();
        qalpha.extend("bmzCNY/".chars());
        let mut queries: Vec<String> = vec![];
        for pre in ["Nb/", "nb/", "NB/", "Nb", "nB", ""] {
            for &a in &qalpha {
                queries.push(format!("{}{}", pre, a));
                for &b in &qalpha {
                    queries.push(format!("{}{}{}", pre, a, b));
                    if pre == "Nb/" {
                        for &c in &qalpha {
                            queries.push(format!("{}{}{}{}", pre, a, b, c));
                        }
                    }
                }
            }
        }
        queries.sort();
        queries.dedup();
        r.count("neighbour_queries", queries.len() as u64);
        let dir = scratch.join(format!("c18-neighbours-tree-{}", pid));
        let cat = scratch.join(format!("c18-neighbours-{}.dat", pid));
        let cat2 = scratch.join(format!("c18-neighbours-adv-{}.dat", pid));
        materialize(&dir, &zones);
        write_concatenated(&cat, &zones);
        write_concatenated_adversarial(&cat2, &zones);
        let mk_dir = || TimeZoneDatabase::from_dir(&dir).unwrap();
        let mk_cat = || TimeZoneDatabase::from_concatenated_path(&cat).unwrap();
        let mk_cat2 = || TimeZoneDatabase::from_concatenated_path(&cat2).unwrap();
        names_battery(&cx, "name-neighbours", "zoneinfo-dir", &mk_dir, &zones, &queries);
        names_battery(&cx, "name-neighbours", "concatenated", &mk_cat, &zones, &queries);
        names_battery(&cx, "name-neighbours", "concatenated", &mk_cat2, &zones, &queries);
        let _ = std::fs::remove_dir_all(&dir);
        let _ = std::fs::remove_file(&cat);
        let _ = std::fs::remove_file(&cat2);
    });
    if r.only_section.is_none() {
        r.require(r.get_count("name_queries_expected_found") > 20_000 && r.get_count("name_queries_expected_unknown") > 20_000, "name lookups with both expected outcomes");
        r.require(r.get_count("name_queries_on_a_cold_database") > 10_000, "case variants looked up on cold databases");
        r.require(r.get_count("neighbour_names") > 150, "synthetic neighbour names");
    }

    // ---------------------------------------------------------------- POSIX print -> parse
    r.section("posix-roundtrip", || {
        let mut strs: Vec<String> = posix_strings(thorough);
        let shapes = posix_shapes(thorough);
        r.count("posix_shape_strings", shapes.len() as u64);
        strs.extend(shapes);
        // every footer of the installed database, of its slim compilation, of the
        // bundled database and of the synthetic zones
        let bundled: Vec<&'static [u8]> = jiff_tzdb::available().filter_map(|n| jiff_tzdb::get(n).map(|x| x.1)).collect();
        let all = sysz.iter().map(|x| &x.1[..]).chain(zic_slim.iter().map(|x| x.1)).chain(synth_slim.iter().map(|x| x.1)).chain(synth_fat.iter().map(|x| x.1)).chain(bundled.into_iter());
        for b in all {
            if let Ok(raw) = rtz::parse_tzif(b) {
                if let Some(f) = raw.footer {
                    strs.push(String::from_utf8_lossy(&f).into_owned());
                }
            }
        }
        strs.sort();
        strs.dedup();
        r.count("posix_strings", strs.len() as u64);
        let printer = DateTimePrinter::new();
        let parser = DateTimeParser::new();
        strs.par_iter().for_each(|s| {
            let case = format!("{} posix:{}", cfg, s);
            let Ok(model) = rtz::parse_posix(s.as_bytes()) else {
                r.count("posix_strings_the_reference_reader_rejects", 1);
                return;
            };
            let tz = match guard(|| TimeZone::posix(s)) {
                Ok(Ok(t)) => t,
                Ok(Err(_)) => {
                    // acceptance is C17's business; nothing to print
                    r.count("posix_strings_jiff_rejects", 1);
                    return;
                }
                Err(pn) => {
                    r.viol("posix-roundtrip", &format!("TimeZone::posix/{}", panic_sig(&pn)), case.clone(), pn);
                    return;
                }
            };
            let mut printed = String::new();
            match guard(|| printer.print_time_zone(&tz, &mut printed)) {
                Ok(Ok(())) => {}
                other => {
                    r.viol("posix-roundtrip", "print_time_zone/fails", case.clone(), format!("{:?}", other.map(|x| x.map_err(|e| e.to_string()))));
                    return;
                }
            }
            let tz2 = match guard(|| parser.parse_time_zone(&printed)) {
                Ok(Ok(t)) => t,
                other => {
                    r.viol("posix-roundtrip", "parse_time_zone/rejects-printed-form", case.clone(), format!("printed {:?}: {:?}", printed, other.map(|x| x.map(|_| ()).map_err(|e| e.to_string()))));
                    return;
                }
            };
            let p = posix_probes(&model);
            let (Ok(a), Ok(b)) = (stream(&tz, &p, true, false), stream(&tz2, &p, true, false)) else {
                r.count("posix_streams_that_panicked_(C03/C04/C14)", 1);
                return;
            };
            r.add_states(1);
            r.add_validated(a.len() as u64);
            r.add_transitions(a.len() as u64);
            if let Some(d) = first_diff(&a, &b) {
                r.viol("posix-roundtrip", "posix-print-parse/behaviour-differs", case.clone(), format!("printed {:?}: {}", printed, d));
            }
            put(&digests, format!("posix:{}", s), &a, "");

            // the printed form read by the reference POSIX reader is the same rule
            // (independent of jiff's own parser sharing a mistake with its printer)
            r.add_validated(1);
            match (rtz::parse_posix(s.as_bytes()), rtz::parse_posix(printed.as_bytes())) {
                (Ok(x), Ok(y)) if x == y => {}
                (x, y) => r.viol("posix-roundtrip", "print_time_zone/printed-form-is-another-rule-for-the-reference-reader", case.clone(), format!("printed {:?}: {:?} vs {:?}", printed, x, y)),
            }
            // the other entry point for the printed form, and printing is a fixed point
            match guard(|| TimeZone::posix(&printed)) {
                Ok(Ok(tz3)) => {
                    let mut again = String::new();
                    let _ = guard(|| printer.print_time_zone(&tz3, &mut again));
                    r.add_validated(2);
                    if again != printed {
                        r.viol("posix-roundtrip", "print_time_zone/printed-form-is-not-a-fixed-point", case.clone(), format!("{:?} -> {:?}", printed, again));
                    }
                    // equal zones have the same rules (documented); otherwise compare the behaviour
                    if tz3 == tz2 {
                        r.count("posix_printed_form_gives_equal_zones_through_both_entry_points", 1);
                    } else {
                        match stream(&tz3, &p, true, false) {
                            Ok(c) => {
                                if let Some(d) = first_diff(&a, &c) {
                                    r.viol("posix-roundtrip", "posix-print-TimeZone::posix/behaviour-differs", case.clone(), format!("printed {:?}: {}", printed, d));
                                }
                            }
                            Err(pn) => r.viol("posix-roundtrip", &format!("TimeZone::posix(printed)/{}", panic_sig(&pn)), case.clone(), pn),
                        }
                    }
                }
                other => r.viol("posix-roundtrip", "TimeZone::posix/rejects-printed-form", case.clone(), format!("printed {:?}: {:?}", printed, other.map(|x| x.map(|_| ()).map_err(|e| e.to_string())))),
            }
            // Debug shows the same printed form
            r.add_validated(1);
            let dbg = format!("{:?}", tz);
            if dbg != format!("TimeZone(Posix({}))", printed) {
                r.viol("posix-roundtrip", "TimeZone-Debug/differs-from-print_time_zone", case.clone(), format!("{:?} vs printed {:?}", dbg, printed));
            }
        });
    });
    if r.only_section.is_none() {
        r.require(r.get_count("posix_shape_strings") > 1000, "POSIX shape alphabet");
        r.require(r.get_count("posix_strings_jiff_rejects") + r.get_count("posix_strings_the_reference_reader_rejects") < r.get_count("posix_strings") / 20, "nearly all POSIX strings are accepted by both readers");
    }

    let _ = std::fs::remove_file(&concat_path);
    if let Some(p) = digest_out {
        std::fs::write(p, serde_json::to_string(&*digests.lock().unwrap()).unwrap()).unwrap();
    }
    r.count("digests", digests.lock().unwrap().len() as u64);
    if r.only_section.is_none() {
        r.require(digests.lock().unwrap().len() > 1000, "more than 1000 zone streams produced");
    }
    r.outcome(cfg, 1);
    r.finish();
}

fn slim_vs_fat(r: &Report, sec: &str, cfg: &str, name: &str, sbytes: &[u8], fbytes: &[u8], thorough: bool) {
    let case = format!("{} {}", cfg, name);
    let (Ok(ms), Ok(mf)) = (rtz::zone_from_tzif(sbytes), rtz::zone_from_tzif(fbytes)) else { return };
    // The two files must describe the same zone in the first place (zic's own
    // slim and fat outputs differ for a few zones, e.g. Asia/Gaza in 2073): the
    // lists of info-changing breakpoints of the two models must coincide.
    let chg = |z: &rtz::Zone| -> Vec<(i64, rtz::Info)> {
        z.effective().iter().filter(|e| e.changing && e.start > TS_MIN_SEC && e.start <= TS_MAX_SEC).map(|e| (e.start, z.infos[e.info as usize].clone())).collect()
    };
    if chg(&ms) != chg(&mf) || ms.infos[ms.pieces[0].info as usize] != mf.infos[mf.pieces[0].info as usize] {
        r.count("slim_vs_fat_skipped_because_zic_outputs_differ", 1);
        return;
    }
    let p = probes(&[&ms, &mf], thorough);
    let fl = |a: &[u8], b: &[u8]| -> String {
        let mut fl: Vec<String> = vec![flags(a), flags(b)].into_iter().flat_map(|f| f.split(',').map(|x| x.to_string()).collect::<Vec<_>>()).filter(|x| !x.is_empty()).collect();
        fl.sort();
        fl.dedup();
        fl.join(",")
    };
    let (ts, tf) = match (guard(|| TimeZone::tzif(name, sbytes)), guard(|| TimeZone::tzif(name, fbytes))) {
        (Ok(Ok(a)), Ok(Ok(b))) => (a, b),
        (Ok(Err(_)), Ok(Err(_))) => {
            r.count("slim_vs_fat_both_compilations_rejected", 1);
            return;
        }
        (Ok(a), Ok(b)) => {
            // the two compilations of the same rules do not even agree on being a zone
            let d = format!("slim: {:?}; fat: {:?}", a.as_ref().map(|_| "loads").map_err(|e| e.to_string()), b.as_ref().map(|_| "loads").map_err(|e| e.to_string()));
            r.viol(sec, &format!("slim-vs-fat/only-one-compilation-loads:{}", fl(sbytes, fbytes)), case, d);
            return;
        }
        (a, b) => {
            r.viol(sec, "slim-vs-fat/panic", case, format!("{:?} {:?}", a.err(), b.err()));
            return;
        }
    };
    let (a, b) = match (stream(&ts, &p, false, false), stream(&tf, &p, false, false)) {
        (Ok(a), Ok(b)) => (a, b),
        (x, y) => {
            r.viol(sec, "slim-vs-fat/panic", case, format!("{:?} {:?}", x.err(), y.err()));
            return;
        }
    };
    r.add_states(1);
    r.count("slim_vs_fat_pairs", 1);
    r.add_validated(a.len() as u64);
    r.add_transitions(a.len() as u64);
    if let Some(d) = first_diff(&a, &b) {
        // F7: per-year clamping makes the rule-driven (slim) and the recorded (fat) readings differ
        let fl = fl(sbytes, fbytes);
        let sig = if fl.is_empty() { "slim-vs-fat/stream-differs".to_string() } else { format!("slim-vs-fat/stream-differs:{}", fl) };
        r.viol(sec, &sig, case, d);
    }
}

const BEHAVIOUR_PROBES: [i64; 4] = [-2_000_000_000, 0, 1_700_000_000, 4_000_000_000];

fn same_behaviour(a: &TimeZone, b: &TimeZone) -> Result<(), String> {
    for s in BEHAVIOUR_PROBES {
        let ts = Timestamp::from_second(s).unwrap();
        let (x, y) = (a.to_offset_info(ts), b.to_offset_info(ts));
        if (x.offset(), x.dst(), x.abbreviation().to_string()) != (y.offset(), y.dst(), y.abbreviation().to_string()) {
            return Err(format!("at {}: {:?} vs {:?}", s, x, y));
        }
    }
    Ok(())
}

#[derive(Clone, Copy, PartialEq)]
enum QKind {
    Canonical,
    Variant,
    Cold,
    Mutated,
}

/// The name battery for one database: `zones` is what the database holds
/// (identifier -> bytes, from the harness's own knowledge). The oracle for a
/// query `q` is the documentation of `TimeZoneDatabase::get`: it succeeds
/// exactly when `q` equals, ignoring ASCII case, an identifier of the
/// database (whose data loads), and then the zone carries the canonical
/// spelling and is the zone of that identifier's data.
fn names_battery(cx: &Ctx, sec: &str, be: &str, mk: &(dyn Fn() -> TimeZoneDatabase + Sync), zones: &[(String, Vec<u8>)], extra: &[String]) {
    let (r, cfg) = (cx.r, cx.cfg);
    let mut index: HashMap<String, usize> = HashMap::new();
    let mut ambiguous: BTreeSet<String> = BTreeSet::new();
    for (i, (n, _)) in zones.iter().enumerate() {
        if index.insert(n.to_ascii_lowercase(), i).is_some() {
            ambiguous.insert(n.to_ascii_lowercase());
        }
    }
    r.count("names_that_differ_only_in_case_(not_queried)", ambiguous.len() as u64);
    let refs: Vec<Option<TimeZone>> = zones.par_iter().map(|(n, b)| guard(|| TimeZone::tzif(n, b)).ok().and_then(|x| x.ok())).collect();
    r.count("names_whose_data_does_not_load", refs.iter().filter(|x| x.is_none()).count() as u64);

    let check = |db: &TimeZoneDatabase, q: &str, kind: QKind| {
        if q == "UTC" || q == "Etc/Unknown" {
            // built-in zones of the directory and concatenated back-ends
            if !index.contains_key(&q.to_ascii_lowercase()) {
                return;
            }
        }
        let lower = q.to_ascii_lowercase();
        if ambiguous.contains(&lower) {
            return;
        }
        let case = if kind == QKind::Mutated { format!("{} {:?}", cfg, q) } else { format!("{} {}", cfg, q) };
        let want = index.get(&lower).copied().filter(|&i| refs[i].is_some());
        r.add_transitions(1);
        if kind == QKind::Cold {
            r.count("name_queries_on_a_cold_database", 1);
        }
        let suffix = if kind == QKind::Cold { ":cold-cache" } else { "" };
        let got = match guard(|| db.get(q)) {
            Err(pn) => {
                r.viol(sec, &format!("{}/{}", be, panic_sig(&pn)), case, pn);
                return;
            }
            Ok(x) => x,
        };
        match (want, got) {
            (None, Err(_)) => {
                r.add_validated(1);
                r.count("name_queries_expected_unknown", 1);
            }
            (None, Ok(t)) => r.viol(sec, &format!("{}/unknown-name-found", be), case, format!("{:?}", t.iana_name())),
            (Some(_), Err(e)) => {
                let sig = if kind == QKind::Canonical { format!("{}/canonical-lookup-fails", be) } else { format!("{}/case-variant-not-found{}", be, suffix) };
                r.viol(sec, &sig, case, e.to_string());
            }
            (Some(i), Ok(t)) => {
                r.add_validated(1);
                r.count("name_queries_expected_found", 1);
                let name = zones[i].0.as_str();
                let rf = refs[i].as_ref().unwrap();
                if t.iana_name() != Some(name) {
                    let sig = if kind == QKind::Canonical { format!("{}/iana_name-not-canonical", be) } else { format!("{}/case-variant-not-canonical-spelling{}", be, suffix) };
                    r.viol(sec, &sig, case, format!("{:?} want {}", t.iana_name(), name));
                } else if let Err(d) = same_behaviour(&t, rf) {
                    r.viol(sec, &format!("{}/case-variant-different-zone{}", be, suffix), case, d);
                } else if name != "UTC" && (t != *rf || *rf != t) {
                    // documented equality: same identifier, same checksum
                    r.viol(sec, &format!("{}/TimeZone-ne-tzif(bytes)-for-the-same-identifier-and-data{}", be, suffix), case, format!("{:?} != {:?}", t, rf));
                }
            }
        }
    };

    // ---- listing
    let db = mk();
    let mut listed: Vec<String> = db.available().map(|n| n.as_str().to_string()).collect();
    listed.sort();
    let mut want: Vec<String> = zones.iter().map(|z| z.0.clone()).collect();
    want.sort();
    r.add_validated(1);
    if listed.windows(2).any(|w| w[0] == w[1]) {
        r.viol(sec, &format!("{}/available-lists-a-name-twice", be), format!("{} {}", cfg, be), format!("{:?}", listed.windows(2).find(|w| w[0] == w[1]).map(|w| w[0].clone())));
    }
    if be == "zoneinfo-dir" {
        for w in &want {
            if listed.binary_search(w).is_err() {
                r.viol(sec, "zoneinfo-dir/available-misses-name", format!("{} {}", cfg, w), "not listed");
            }
        }
        for l in &listed {
            if want.binary_search(l).is_err() {
                r.viol(sec, "zoneinfo-dir/available-lists-a-name-without-a-TZif-file", format!("{} {}", cfg, l), "listed");
            }
        }
    } else if listed != want {
        r.viol(sec, &format!("{}/available-differs", be), format!("{} {}", cfg, be), format!("{} listed vs {} expected", listed.len(), want.len()));
    }

    // ---- warm database: canonical first, then every variant and mutation
    zones.par_iter().for_each(|(name, _)| {
        check(&db, name, QKind::Canonical);
        let mut variants = vec![name.to_ascii_lowercase(), name.to_ascii_uppercase(), alternating(name), alternating2(name), flip_first(name), flip_around_separators(name)];
        let letters = name.bytes().filter(|b| b.is_ascii_alphabetic()).count();
        if rep_small(name) || name.len() <= 6 || (cx.thorough && letters <= 10) {
            variants.extend(all_case_variants(name));
        }
        variants.sort();
        variants.dedup();
        for v in variants {
            check(&db, &v, QKind::Variant);
        }
        let mut bad = vec![
            format!("{}x", name),
            format!("{}/", name),
            format!(" {}", name),
            format!("{} ", name),
            format!("./{}", name),
            format!("/{}", name),
            format!("{}/{}", SYS, name),
            format!("{}/.", name),
            format!("{}/..", name),
            format!("x/../{}", name),
            format!("{}\0", name),
            name[..name.len() - 1].to_string(),
        ];
        if name.contains('/') {
            bad.push(name.replace('/', "//"));
            bad.push(name.replace('/', "\\"));
            bad.push(name.replace('/', "_"));
        }
        // neighbouring separators: a different identifier, known or not
        for (i, c) in name.char_indices() {
            if matches!(c, '_' | '-' | '+') {
                for rep in ['_', '-', '+', ' '] {
                    if rep != c {
                        let mut b = name.as_bytes().to_vec();
                        b[i] = rep as u8;
                        bad.push(String::from_utf8(b).unwrap());
                    }
                }
            }
        }
        for q in bad {
            check(&db, &q, QKind::Mutated);
        }
    });
    for bad in ["", "Does/Not_Exist", "America", "America/", "/", ".", "..", "../zoneinfo/UTC", "America/New_York\0", "Etc/GMT+", "Etc", "posix", "right/", "posix/", "/usr/share/zoneinfo/UTC", "UTC/", "utc\0", "Ｕtc", "America/New_York/America/New_York"] {
        check(&db, bad, QKind::Mutated);
    }
    extra.par_iter().for_each(|q| check(&db, q, QKind::Mutated));

    // ---- cold databases: the first query ever made for an identifier is a
    // case variant (the warm passes above find variants in the cache of zones
    // loaded under their canonical spelling)
    let kinds: [fn(&str) -> String; 6] = [|s| s.to_ascii_lowercase(), |s| s.to_ascii_uppercase(), alternating, alternating2, flip_first, flip_around_separators];
    for f in kinds {
        let db = mk();
        zones.par_iter().for_each(|(name, _)| check(&db, &f(name), QKind::Cold));
    }
    if !extra.is_empty() {
        let db = mk();
        extra.par_iter().for_each(|q| check(&db, q, QKind::Cold));
    }
}

fn alternating2(s: &str) -> String {
    s.chars().enumerate().map(|(i, c)| if i % 2 == 1 { c.to_ascii_uppercase() } else { c.to_ascii_lowercase() }).collect()
}
/// Flips the case of the letters next to a separator (`/`, `_`, `-`, `+`).
fn flip_around_separators(s: &str) -> String {
    let b = s.as_bytes();
    let sep = |c: u8| matches!(c, b'/' | b'_' | b'-' | b'+');
    let out: Vec<u8> = (0..b.len())
        .map(|i| {
            let near = (i > 0 && sep(b[i - 1])) || (i + 1 < b.len() && sep(b[i + 1]));
            if near && b[i].is_ascii_uppercase() {
                b[i].to_ascii_lowercase()
            } else if near && b[i].is_ascii_lowercase() {
                b[i].to_ascii_uppercase()
            } else {
                b[i]
            }
        })
        .collect();
    String::from_utf8(out).unwrap()
}

fn alternating(s: &str) -> String {
    s.chars().enumerate().map(|(i, c)| if i % 2 == 0 { c.to_ascii_uppercase() } else { c.to_ascii_lowercase() }).collect()
}
fn flip_first(s: &str) -> String {
    let mut c = s.chars();
    match c.next() {
        Some(f) => {
            let f2 = if f.is_ascii_uppercase() { f.to_ascii_lowercase() } else { f.to_ascii_uppercase() };
            format!("{}{}", f2, c.as_str())
        }
        None => String::new(),
    }
}
fn rep_small(name: &str) -> bool {
    ["UTC", "Asia/Tokyo", "Europe/Rome", "America/Lima", "Etc/GMT+1", "CET", "Asia/Dili"].contains(&name)
}
fn all_case_variants(name: &str) -> Vec<String> {
    let letters: Vec<usize> = name.char_indices().filter(|(_, c)| c.is_ascii_alphabetic()).map(|(i, _)| i).collect();
    let k = letters.len().min(12);
    let mut out = vec![];
    for mask in 0u32..(1 << k) {
        let mut b = name.as_bytes().to_vec();
        for (j, &i) in letters.iter().take(k).enumerate() {
            b[i] = if mask >> j & 1 == 1 { b[i].to_ascii_uppercase() } else { b[i].to_ascii_lowercase() };
        }
        out.push(String::from_utf8(b).unwrap());
    }
    out
}

/// A POSIX alphabet (same construction as vf::zones::posix_alphabet level 0/1,
/// repeated here because this crate cannot depend on `vf`).
fn posix_strings(thorough: bool) -> Vec<String> {
    let stds: &[(&str, &str, i64)] = &[("AAA", "12", 12 * 3600), ("NST", "3:30", 12600), ("UTC", "0", 0), ("<+0545>", "-5:45", -20700), ("<+13>", "-13", -46800)];
    let days: &[&str] = if thorough { &["J1", "J60", "J365", "0", "59", "364", "M1.1.0", "M3.2.0", "M10.5.0", "M12.5.6"] } else { &["J1", "J60", "J365", "0", "59", "M3.2.0", "M10.5.0"] };
    let times: &[&str] = if thorough { &["", "/0", "/24", "/-1", "/167", "/-167", "/1:30:15"] } else { &["", "/0", "/24", "/-1"] };
    let mut out = vec![];
    for (sa, so, ss) in stds {
        out.push(format!("{}{}", sa, so));
        for delta in [None, Some(1800i64), Some(-3600)] {
            let dst = match delta {
                None => "DDD".to_string(),
                Some(d) => {
                    let p = ss - d;
                    let sign = if p < 0 { "-" } else { "" };
                    let a = p.abs();
                    if a % 3600 == 0 {
                        format!("DDD{}{}", sign, a / 3600)
                    } else {
                        format!("DDD{}{}:{:02}", sign, a / 3600, (a % 3600) / 60)
                    }
                }
            };
            for ds in days {
                for ts in times {
                    for de in days {
                        for te in times {
                            if ds != de {
                                out.push(format!("{}{}{},{}{},{}{}", sa, so, dst, ds, ts, de, te));
                            }
                        }
                    }
                }
            }
        }
    }
    out.retain(|s| {
        let Ok(tz) = rtz::parse_posix(s.as_bytes()) else { return true };
        if tz.dst.is_none() {
            return true;
        }
        [2023i64, 2024, 2025].iter().all(|&y| {
            let (a, b) = tz.year_transitions(y).unwrap();
            let d = (a - b).abs();
            let ylen = cal::days_in_year(y) * 86400;
            d >= 16 * 86400 && ylen - d >= 16 * 86400
        })
    });
    out
}

fn fmt_posix_hms(p: i64) -> String {
    let sign = if p < 0 { "-" } else { "" };
    let a = p.abs();
    if a % 60 != 0 {
        format!("{}{}:{:02}:{:02}", sign, a / 3600, a / 60 % 60, a % 60)
    } else if a % 3600 != 0 {
        format!("{}{}:{:02}", sign, a / 3600, a / 60 % 60)
    } else {
        format!("{}{}", sign, a / 3600)
    }
}

/// The *spellings* of the POSIX grammar (what the printer has to normalise):
/// quoted and unquoted abbreviations for both names, explicit `+`, leading
/// zeros, minutes and seconds in offsets and rule times, negative and > 24 h
/// rule times, explicit DST offsets equal / not equal to the default, negative
/// DST, all three day forms at their limits.
fn posix_shapes(thorough: bool) -> Vec<String> {
    let abbrs: &[&str] = &["AAA", "ABCDEF", "abc", "<+05>", "<-0330>", "<A1B>", "<ABC>"];
    let offs: &[&str] = &["0", "5", "+5", "05", "-5", "5:30", "-5:30", "5:00:15", "-5:30:15", "24:59:59", "-24:59:59", "0:00:01", "-0", "+00:00:00"];
    let off_secs = |s: &str| -> i64 {
        let (sg, rest) = match s.as_bytes()[0] {
            b'-' => (-1, &s[1..]),
            b'+' => (1, &s[1..]),
            _ => (1, s),
        };
        let v: Vec<i64> = rest.split(':').map(|x| x.parse().unwrap()).collect();
        sg * (v[0] * 3600 + v.get(1).copied().unwrap_or(0) * 60 + v.get(2).copied().unwrap_or(0))
    };
    let mut out = vec![];
    for a in abbrs {
        for o in offs {
            out.push(format!("{}{}", a, o));
        }
    }
    let dabbrs: &[&str] = &["DDD", "<+06>", "<-02>", "<D2D>"];
    // DST offset relative to standard time (None = left out)
    let deltas: &[Option<i64>] = &[None, Some(3600), Some(1800), Some(3615), Some(-3600), Some(7200)];
    let (sa, so): (&[&str], &[&str]) = if thorough { (abbrs, offs) } else { (&["AAA", "<+05>", "<A1B>"], &["5", "-5:30", "5:00:15", "-24:59:59", "0", "+5"]) };
    for a in sa {
        for o in so {
            for d in dabbrs {
                for dl in deltas {
                    let dst = match dl {
                        None => String::new(),
                        Some(dl) => {
                            let p = off_secs(o) - dl;
                            if p.abs() > 24 * 3600 + 3599 {
                                continue;
                            }
                            fmt_posix_hms(p)
                        }
                    };
                    out.push(format!("{}{}{}{},M3.2.0,M11.1.0", a, o, d, dst));
                }
            }
        }
    }
    let pairs: &[(&str, &str)] = &[
        ("J60", "J300"),
        ("J1", "J200"),
        ("J100", "J365"),
        ("0", "200"),
        ("59", "299"),
        ("100", "364"),
        ("M3.2.0", "M10.5.0"),
        ("M1.1.0", "M6.5.6"),
        ("M6.3.3", "M12.5.6"),
        ("J60", "M10.5.0"),
        ("M3.2.0", "299"),
        ("M10.1.0", "M4.1.0"),
    ];
    let times: &[&str] = &["", "/2", "/+2", "/02", "/2:00:00", "/0", "/-0", "/2:30", "/2:00:15", "/-2:30:15", "/-0:30", "/-0:00:01", "/-0:59:59", "/-1", "/-1:00:01", "/24", "/25", "/167:59:59", "/-167:59:59", "/7:05:09"];
    let few: &[&str] = &["", "/0", "/-167:59:59"];
    for (ds, de) in pairs {
        for ts in times {
            for te in times {
                if thorough || few.contains(ts) || few.contains(te) {
                    out.push(format!("AAA5DDD,{}{},{}{}", ds, ts, de, te));
                }
            }
        }
    }
    out.retain(|s| {
        let Ok(tz) = rtz::parse_posix(s.as_bytes()) else { return true };
        if tz.dst.is_none() {
            return true;
        }
        [2023i64, 2024, 2025].iter().all(|&y| {
            let (a, b) = tz.year_transitions(y).unwrap();
            let d = (a - b).abs();
            let ylen = cal::days_in_year(y) * 86400;
            d >= 16 * 86400 && ylen - d >= 16 * 86400
        })
    });
    out
}
