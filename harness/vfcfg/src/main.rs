//! C18: all ways of loading a time zone give the same zone.
//!
//! Compiled twice (feature `fat` = jiff's `tz-fat` on / off). In each
//! configuration every zone is loaded through every back-end and the canonical
//! *answer streams* (offset info at P(z), civil classification at C(z), first
//! following/preceding items, printed forms) are compared line by line; a
//! digest of the raw-bytes stream is written out so that the driver can
//! compare the two configurations with each other.

#[path = "../../vf/src/guard.rs"]
#[allow(dead_code)]
mod guard;
#[path = "../../vf/src/report.rs"]
#[allow(dead_code)]
mod report;

include!(concat!(env!("OUT_DIR"), "/static_zones.rs"));

use guard::{guard, panic_sig};
use jiff::civil::DateTime;
use jiff::fmt::temporal::{DateTimeParser, DateTimePrinter};
use jiff::tz::{AmbiguousOffset, TimeZone, TimeZoneDatabase};
use jiff::{Timestamp, Zoned};
use rayon::prelude::*;
use refmodel::{cal, tz as rtz};
use report::Report;
use serde_json::json;
use std::collections::BTreeMap;
use std::hash::{Hash, Hasher};
use std::path::{Path, PathBuf};
use std::sync::Mutex;

const NS: i128 = 1_000_000_000;
const TS_MIN_SEC: i64 = -377705023201;
const TS_MAX_SEC: i64 = 253402207200;
const SYS: &str = "/usr/share/zoneinfo";

fn walk(dir: &Path, base: &Path, skip_top: &[&str], out: &mut Vec<(String, Vec<u8>)>) {
    let mut ents: Vec<PathBuf> = match std::fs::read_dir(dir) {
        Ok(r) => r.filter_map(|e| e.ok()).map(|e| e.path()).collect(),
        Err(_) => return,
    };
    ents.sort();
    for p in ents {
        let Ok(md) = std::fs::metadata(&p) else { continue };
        if md.is_dir() {
            let rel = p.strip_prefix(base).unwrap().to_string_lossy().into_owned();
            if skip_top.contains(&rel.as_str()) {
                continue;
            }
            walk(&p, base, skip_top, out);
        } else if md.is_file() {
            if let Ok(b) = std::fs::read(&p) {
                if b.len() >= 44 && &b[0..4] == b"TZif" {
                    out.push((p.strip_prefix(base).unwrap().to_string_lossy().into_owned(), b));
                }
            }
        }
    }
}

fn zic(src: &str, mode: &str, tag: &str) -> (PathBuf, Vec<(String, Vec<u8>)>) {
    let dir = PathBuf::from(format!("/verif/.build/zones/c18-{}-{}-{}", tag, mode, std::process::id()));
    let _ = std::fs::remove_dir_all(&dir);
    std::fs::create_dir_all(&dir).unwrap();
    let st = std::process::Command::new("zic").args(["-b", mode, "-d"]).arg(&dir).arg(src).output().expect("zic");
    assert!(st.status.success(), "zic: {}", String::from_utf8_lossy(&st.stderr));
    let mut v = vec![];
    walk(&dir, &dir, &[], &mut v);
    (dir, v)
}

/// Writes an Android-style concatenated tzdata file in the format that
/// `src/tz/concatenated.rs` reads: 24-byte header, 52-byte index entries,
/// data block.
fn write_concatenated(path: &Path, zones: &[(String, Vec<u8>)]) {
    let mut index = vec![];
    let mut data = vec![];
    for (name, bytes) in zones {
        if name.len() > 39 {
            continue;
        }
        let mut e = [0u8; 52];
        e[..name.len()].copy_from_slice(name.as_bytes());
        e[40..44].copy_from_slice(&(data.len() as u32).to_be_bytes());
        e[44..48].copy_from_slice(&(bytes.len() as u32).to_be_bytes());
        index.extend_from_slice(&e);
        data.extend_from_slice(bytes);
    }
    let mut out = vec![];
    out.extend_from_slice(b"tzdata2025b\0");
    let index_off = 24u32;
    let data_off = index_off + index.len() as u32;
    let tab_off = data_off + data.len() as u32;
    out.extend_from_slice(&index_off.to_be_bytes());
    out.extend_from_slice(&data_off.to_be_bytes());
    out.extend_from_slice(&tab_off.to_be_bytes());
    out.extend_from_slice(&index);
    out.extend_from_slice(&data);
    std::fs::write(path, out).unwrap();
}

#[derive(Clone)]
struct Probes {
    instants: Vec<i128>,
    civils: Vec<i128>,
    iter_starts: Vec<i128>,
}

fn year_of(t: i64) -> i64 {
    cal::civil_from_days(t.div_euclid(86400)).0
}

fn probes(models: &[&rtz::Zone], thorough: bool) -> Probes {
    let mut p = Probes { instants: vec![], civils: vec![], iter_starts: vec![] };
    let tmin = TS_MIN_SEC as i128 * NS;
    let tmax = TS_MAX_SEC as i128 * NS + 999_999_999;
    p.instants.extend([tmin, tmin + 1, -1, 0, 1, tmax - 1, tmax]);
    let dmin = cal::min_day() as i128 * 86400 * NS;
    let dmax = (cal::max_day() as i128 + 1) * 86400 * NS - 1;
    p.civils.extend([dmin, dmin + 90_000 * NS, 0, dmax - 90_000 * NS, dmax]);
    p.iter_starts.extend([tmin, 0, tmax]);
    for z in models {
        let last_rec = z.pieces.iter().filter(|x| x.recorded).map(|x| x.start).max().unwrap_or(0);
        let y0 = year_of(last_rec.max(TS_MIN_SEC));
        for k in 1..z.pieces.len() {
            let pc = &z.pieces[k];
            if pc.start <= TS_MIN_SEC || pc.start > TS_MAX_SEC {
                continue;
            }
            if !pc.recorded {
                let y = pc.rule_year;
                let keep = (y0..y0 + 3).contains(&y) || (2037..2040).contains(&y) || y == 2100 || y >= 9997 || (thorough && y % 37 == 0);
                if !keep {
                    continue;
                }
            }
            let b = pc.start as i128 * NS;
            for d in [-NS, -NS / 2, -1, 0, 1, NS] {
                let t = b + d;
                if t >= tmin && t <= tmax {
                    p.instants.push(t);
                }
            }
            p.iter_starts.push(b);
            if b - 1 >= tmin {
                p.iter_starts.push(b - 1);
            }
            let o1 = z.infos[z.pieces[k - 1].info as usize].utoff as i128;
            let o2 = z.infos[pc.info as usize].utoff as i128;
            let (lo, hi) = ((pc.start as i128 + o1.min(o2)) * NS, (pc.start as i128 + o1.max(o2)) * NS);
            for c in [lo - NS, lo - 1, lo, lo + (hi - lo) / 2, hi - 1, hi, hi + NS] {
                if c >= dmin && c <= dmax {
                    p.civils.push(c);
                }
            }
        }
    }
    p.instants.sort();
    p.instants.dedup();
    p.civils.sort();
    p.civils.dedup();
    p.iter_starts.sort();
    p.iter_starts.dedup();
    p
}

fn dt_from_civil_ns(n: i128) -> DateTime {
    let day = n.div_euclid(86400 * NS) as i64;
    let rem = n.rem_euclid(86400 * NS);
    let (y, m, d) = cal::civil_from_days(day);
    let s = (rem / NS) as i64;
    DateTime::new(y as i16, m as i8, d as i8, (s / 3600) as i8, ((s / 60) % 60) as i8, (s % 60) as i8, (rem % NS) as i32).unwrap()
}

/// The canonical answer stream. `with_iters`: include the raw iterator items
/// (not meaningful when comparing slim with fat data: recorded no-op entries differ).
fn stream(tz: &TimeZone, p: &Probes, with_iters: bool, with_name: bool) -> Result<Vec<String>, String> {
    guard(|| {
        let mut out = Vec::with_capacity(p.instants.len() + p.civils.len() + 8);
        if with_name {
            out.push(format!("N {:?}", tz.iana_name()));
        }
        for &t in &p.instants {
            let ts = Timestamp::from_nanosecond(t).unwrap();
            let i = tz.to_offset_info(ts);
            out.push(format!("I {} {} {} {} {}", t, i.offset().seconds(), i.dst().is_dst(), i.abbreviation(), tz.to_datetime(ts)));
        }
        for &c in &p.civils {
            let dt = dt_from_civil_ns(c);
            let a = tz.to_ambiguous_timestamp(dt);
            let cls = match a.offset() {
                AmbiguousOffset::Unambiguous { offset } => format!("U {}", offset.seconds()),
                AmbiguousOffset::Gap { before, after } => format!("G {} {}", before.seconds(), after.seconds()),
                AmbiguousOffset::Fold { before, after } => format!("F {} {}", before.seconds(), after.seconds()),
            };
            out.push(format!("C {} {} {:?}", dt, cls, a.compatible().ok().map(|t| t.as_nanosecond())));
        }
        if with_iters {
            for &s in &p.iter_starts {
                let ts = Timestamp::from_nanosecond(s).unwrap();
                let f: Vec<String> = tz.following(ts).take(2).map(|t| format!("{}/{}/{}/{}", t.timestamp().as_second(), t.offset().seconds(), t.dst().is_dst(), t.abbreviation())).collect();
                let b: Vec<String> = tz.preceding(ts).take(2).map(|t| format!("{}/{}/{}/{}", t.timestamp().as_second(), t.offset().seconds(), t.dst().is_dst(), t.abbreviation())).collect();
                out.push(format!("T {} f={:?} p={:?}", s, f, b));
            }
        } else {
            // the info-changing transitions only, to exhaustion
            let mut last: Option<(i32, bool, String)> = None;
            let i0 = tz.to_offset_info(Timestamp::MIN);
            last.replace((i0.offset().seconds(), i0.dst().is_dst(), i0.abbreviation().to_string()));
            let mut n = 0;
            for t in tz.following(Timestamp::MIN).take(60_000) {
                let cur = (t.offset().seconds(), t.dst().is_dst(), t.abbreviation().to_string());
                if Some(&cur) != last.as_ref() {
                    out.push(format!("X {} {:?}", t.timestamp().as_second(), cur));
                    last = Some(cur);
                    n += 1;
                }
            }
            out.push(format!("X# {}", n));
        }
        for &t in [p.instants[p.instants.len() / 3], p.instants[p.instants.len() / 2]].iter() {
            let z = Zoned::new(Timestamp::from_nanosecond(t).unwrap(), tz.clone());
            if with_name {
                out.push(format!("Z {}", z));
            } else {
                out.push(format!("Z {} {}", z.datetime(), z.offset()));
            }
        }
        out
    })
}

fn digest(lines: &[String]) -> String {
    let mut h = std::collections::hash_map::DefaultHasher::new();
    for l in lines {
        l.hash(&mut h);
    }
    format!("{:016x}/{}", h.finish(), lines.len())
}

/// Input-derived classes used to key known findings across configurations.
fn flags(bytes: &[u8]) -> String {
    let mut out: Vec<&str> = vec![];
    if let Ok(m) = rtz::zone_from_tzif(bytes) {
        if m.pieces.iter().any(|p| p.crosses_year) {
            out.push("footer-rule-transition-outside-its-utc-year");
        }
    }
    if let Ok(raw) = rtz::parse_tzif(bytes) {
        let n = raw.times.len();
        if let Some(Ok(tz)) = raw.footer.as_ref().map(|f| rtz::parse_posix(f)) {
            if n >= 2 && tz.dst.is_some() {
                let (a, b) = (raw.types[raw.idx[n - 1] as usize], raw.types[raw.idx[n - 2] as usize]);
                let same = a.0 == b.0 && a.1 == b.1;
                let y = year_of(raw.times[n - 1]);
                let at_rule = (y - 1..=y + 1).any(|yy| {
                    let (s, e) = tz.year_transitions(yy).unwrap();
                    s == raw.times[n - 1] || e == raw.times[n - 1]
                });
                if same && at_rule {
                    out.push("last-recorded-transition-is-noop-at-a-footer-rule-instant");
                }
            }
        }
    }
    out.join(",")
}

fn put(d: &Mutex<BTreeMap<String, String>>, key: String, lines: &[String], flag: impl AsRef<str>) {
    let flag = flag.as_ref();
    if std::env::var("VFCFG_DUMP").ok().as_deref() == Some(key.as_str()) {
        for l in lines {
            println!("{}", l);
        }
    }
    // per line-kind digests so that a difference can be attributed
    let mut parts = vec![];
    for kind in ["I", "C", "T", "Z"] {
        let sel: Vec<String> = lines.iter().filter(|l| l.starts_with(kind)).cloned().collect();
        parts.push(format!("{}={}", kind, digest(&sel)));
    }
    d.lock().unwrap().insert(key, format!("{}|{}", parts.join(","), flag));
}

fn first_diff(a: &[String], b: &[String]) -> Option<String> {
    for i in 0..a.len().max(b.len()) {
        let (x, y) = (a.get(i), b.get(i));
        if x != y {
            return Some(format!("line {}: {:?} vs {:?}", i, x, y));
        }
    }
    None
}

fn main() {
    let r = Report::from_args("C18");
    let cfg = if cfg!(feature = "fat") { "tz-fat=on" } else { "tz-fat=off" };
    let args: Vec<String> = std::env::args().collect();
    let digest_out = args.iter().position(|a| a == "--digests").map(|i| args[i + 1].clone());
    let digests: Mutex<BTreeMap<String, String>> = Mutex::new(BTreeMap::new());
    let thorough = r.thorough();
    std::fs::create_dir_all("/verif/.build/zones").unwrap();

    // ---------------------------------------------------------------- sys
    let mut sysz: Vec<(String, Vec<u8>)> = vec![];
    walk(Path::new(SYS), Path::new(SYS), &["right", "posix"], &mut sysz);
    let concat_path = PathBuf::from(format!("/verif/.build/zones/c18-concat-{}.dat", std::process::id()));
    write_concatenated(&concat_path, &sysz);

    r.section("sys-backends", || {
        let db_dir = TimeZoneDatabase::from_dir(SYS).expect("from_dir");
        let db_cat = TimeZoneDatabase::from_concatenated_path(&concat_path).expect("from_concatenated_path");
        let st: BTreeMap<&'static str, TimeZone> = static_sys().into_iter().collect();
        r.count("static_include_zones", st.len() as u64);
        sysz.par_iter().for_each(|(name, bytes)| {
            let case = format!("{} sys:{}", cfg, name);
            let Ok(model) = rtz::zone_from_tzif(bytes) else { return };
            let p = probes(&[&model], thorough);
            let base = match guard(|| TimeZone::tzif(name, bytes)) {
                Ok(Ok(t)) => t,
                other => {
                    r.viol("sys-backends", "tzif(bytes)/load", case.clone(), format!("{:?}", other.map(|x| x.map(|_| ()).map_err(|e| e.to_string()))));
                    return;
                }
            };
            let sb = match stream(&base, &p, true, true) {
                Ok(s) => s,
                Err(pn) => {
                    r.viol("sys-backends", &format!("tzif(bytes)/{}", panic_sig(&pn)), case.clone(), pn);
                    return;
                }
            };
            put(&digests, format!("sys:{}", name), &sb[1..], flags(bytes));
            r.add_states(1);
            r.add_transitions(sb.len() as u64);
            let mut others: Vec<(&str, Result<TimeZone, String>)> = vec![
                ("zoneinfo-dir", db_dir.get(name).map_err(|e| e.to_string())),
            ];
            if name.len() <= 39 {
                others.push(("concatenated", db_cat.get(name).map_err(|e| e.to_string())));
            }
            if let Some(t) = st.get(name.as_str()) {
                others.push(("static-include", Ok(t.clone())));
            }
            for (be, tz) in others {
                match tz {
                    Err(e) => r.viol("sys-backends", &format!("{}/lookup-fails", be), case.clone(), e),
                    Ok(tz) => match stream(&tz, &p, true, true) {
                        Err(pn) => r.viol("sys-backends", &format!("{}/{}", be, panic_sig(&pn)), case.clone(), pn),
                        Ok(s) => {
                            r.add_validated(s.len() as u64);
                            r.add_transitions(s.len() as u64);
                            if let Some(d) = first_diff(&sb, &s) {
                                r.viol("sys-backends", &format!("{}/stream-differs-from-tzif(bytes)", be), case.clone(), d);
                            }
                            if tz != base && be != "static-include" {
                                // TimeZone equality is by name + data for tzif kinds
                                r.count("timezone_ne_between_backends", 1);
                            }
                        }
                    },
                }
            }
            if name == "America/New_York" {
                r.sample(json!({"config": cfg, "zone": name, "stream_lines": sb.len(), "first": sb[..3.min(sb.len())], "backends": ["tzif(bytes)", "zoneinfo-dir", "concatenated", "static-include"]}));
            }
        });
    });

    // ---------------------------------------------------------------- bundled
    r.section("bundled-backends", || {
        let db = TimeZoneDatabase::bundled();
        let st: BTreeMap<&'static str, TimeZone> = static_bundled().into_iter().collect();
        let names: Vec<&'static str> = jiff_tzdb::available().collect();
        r.count("bundled_names", names.len() as u64);
        names.par_iter().for_each(|name| {
            let case = format!("{} bundled:{}", cfg, name);
            let Some((canon, bytes)) = jiff_tzdb::get(name) else { return };
            let Ok(model) = rtz::zone_from_tzif(bytes) else { return };
            let p = probes(&[&model], thorough);
            let Ok(Ok(base)) = guard(|| TimeZone::tzif(canon, bytes)) else {
                r.viol("bundled-backends", "tzif(bytes)/load", case.clone(), "bundled bytes rejected");
                return;
            };
            let Ok(sb) = stream(&base, &p, true, true) else { return };
            put(&digests, format!("bundled:{}", name), &sb[1..], flags(bytes));
            r.add_states(1);
            let mut others: Vec<(&str, Result<TimeZone, String>)> = vec![("bundled-db", db.get(name).map_err(|e| e.to_string()))];
            if let Some(t) = st.get(name) {
                others.push(("static-get", Ok(t.clone())));
            }
            for (be, tz) in others {
                match tz {
                    Err(e) => r.viol("bundled-backends", &format!("{}/lookup-fails", be), case.clone(), e),
                    Ok(tz) => match stream(&tz, &p, true, true) {
                        Err(pn) => r.viol("bundled-backends", &format!("{}/{}", be, panic_sig(&pn)), case.clone(), pn),
                        Ok(s) => {
                            r.add_validated(s.len() as u64);
                            r.add_transitions(s.len() as u64);
                            if let Some(d) = first_diff(&sb, &s) {
                                r.viol("bundled-backends", &format!("{}/stream-differs-from-tzif(bytes)", be), case.clone(), d);
                            }
                        }
                    },
                }
            }
        });
    });

    // ---------------------------------------------------------------- synthetic, static macro and slim vs fat
    r.section("synth", || {
        let slim = static_synth_slim();
        let fat = static_synth_fat();
        for (set, tag) in [(&slim, "synth-slim"), (&fat, "synth-fat")] {
            for (name, bytes, stz) in set.iter() {
                let case = format!("{} {}:{}", cfg, tag, name);
                let Ok(model) = rtz::zone_from_tzif(bytes) else { continue };
                let p = probes(&[&model], thorough);
                let Ok(Ok(base)) = guard(|| TimeZone::tzif(name, bytes)) else {
                    digests.lock().unwrap().insert(format!("{}:{}", tag, name), format!("LOAD-FAILS|{}", flags(bytes)));
                    continue;
                };
                let Ok(sb) = stream(&base, &p, true, true) else { continue };
                put(&digests, format!("{}:{}", tag, name), &sb[1..], flags(bytes));
                r.add_states(1);
                if let Some(stz) = stz {
                    match stream(stz, &p, true, true) {
                        Err(pn) => r.viol("synth", &format!("static-include/{}", panic_sig(&pn)), case.clone(), pn),
                        Ok(s) => {
                            r.add_validated(s.len() as u64);
                            if let Some(d) = first_diff(&sb, &s) {
                                r.viol("synth", "static-include/stream-differs-from-tzif(bytes)", case.clone(), d);
                            }
                        }
                    }
                }
            }
        }
        // slim vs fat of the same rules
        for (name, sbytes, _) in slim.iter() {
            let Some((_, fbytes, _)) = fat.iter().find(|x| x.0 == *name) else { continue };
            slim_vs_fat(&r, "synth", cfg, name, sbytes, fbytes, thorough);
        }
    });

    r.section("tzdata-slim-vs-fat", || {
        let (d1, slim) = zic("/usr/share/zoneinfo/tzdata.zi", "slim", "tzdata");
        let (d2, fat) = zic("/usr/share/zoneinfo/tzdata.zi", "fat", "tzdata");
        let fatm: BTreeMap<&str, &Vec<u8>> = fat.iter().map(|(n, b)| (n.as_str(), b)).collect();
        let rep = ["America/New_York", "Europe/London", "Europe/Dublin", "Australia/Lord_Howe", "Pacific/Apia", "Africa/Casablanca", "America/Sao_Paulo", "Asia/Tehran", "Africa/Monrovia", "Antarctica/Troll", "America/St_Johns", "Asia/Kathmandu"];
        slim.par_iter().for_each(|(name, sbytes)| {
            let _ = &rep;
            if let Some(fbytes) = fatm.get(name.as_str()) {
                slim_vs_fat(&r, "tzdata-slim-vs-fat", cfg, name, sbytes, fbytes, thorough);
            }
        });
        let _ = std::fs::remove_dir_all(d1);
        let _ = std::fs::remove_dir_all(d2);
    });

    // ---------------------------------------------------------------- names
    r.section("names", || {
        let db_dir = TimeZoneDatabase::from_dir(SYS).unwrap();
        let db_cat = TimeZoneDatabase::from_concatenated_path(&concat_path).unwrap();
        let db_b = TimeZoneDatabase::bundled();
        let sys_names: Vec<String> = sysz.iter().map(|x| x.0.clone()).collect();
        let b_names: Vec<String> = jiff_tzdb::available().map(|s| s.to_string()).collect();
        let cat_names: Vec<String> = sys_names.iter().filter(|n| n.len() <= 39).cloned().collect();
        for (be, db, names) in [("zoneinfo-dir", &db_dir, &sys_names), ("concatenated", &db_cat, &cat_names), ("bundled-db", &db_b, &b_names)] {
            // the database must list exactly these names
            let mut listed: Vec<String> = db.available().map(|n| n.as_str().to_string()).collect();
            listed.sort();
            let mut want = names.clone();
            want.sort();
            if be != "zoneinfo-dir" && listed != want {
                r.viol("names", &format!("{}/available-differs", be), format!("{} {}", cfg, be), format!("{} listed vs {} expected", listed.len(), want.len()));
            } else if be == "zoneinfo-dir" {
                for w in &want {
                    if listed.binary_search(w).is_err() {
                        r.viol("names", "zoneinfo-dir/available-misses-name", format!("{} {}", cfg, w), "not listed");
                    }
                }
            }
            names.par_iter().for_each(|name| {
                let canon = match db.get(name) {
                    Ok(t) => t,
                    Err(e) => {
                        r.viol("names", &format!("{}/canonical-lookup-fails", be), format!("{} {}", cfg, name), e.to_string());
                        return;
                    }
                };
                if canon.iana_name() != Some(name.as_str()) {
                    r.viol("names", &format!("{}/iana_name-not-canonical", be), format!("{} {}", cfg, name), format!("{:?}", canon.iana_name()));
                }
                let mut variants = vec![name.to_ascii_lowercase(), name.to_ascii_uppercase(), alternating(name), flip_first(name)];
                if rep_small(name) {
                    variants = all_case_variants(name);
                }
                for v in variants {
                    r.add_transitions(1);
                    match guard(|| db.get(&v)) {
                        Err(pn) => r.viol("names", &format!("{}/{}", be, panic_sig(&pn)), format!("{} {}", cfg, v), pn),
                        Ok(Err(e)) => r.viol("names", &format!("{}/case-variant-not-found", be), format!("{} {}", cfg, v), e.to_string()),
                        Ok(Ok(t)) => {
                            r.add_validated(1);
                            if t.iana_name() != Some(name.as_str()) {
                                r.viol("names", &format!("{}/case-variant-not-canonical-spelling", be), format!("{} {}", cfg, v), format!("{:?} want {}", t.iana_name(), name));
                            } else {
                                // same behaviour (TimeZone::eq is not claimed by the property)
                                for s in [-2_000_000_000i64, 0, 1_700_000_000, 4_000_000_000] {
                                    let ts = Timestamp::from_second(s).unwrap();
                                    let (a, b) = (t.to_offset_info(ts), canon.to_offset_info(ts));
                                    if (a.offset(), a.dst(), a.abbreviation().to_string()) != (b.offset(), b.dst(), b.abbreviation().to_string()) {
                                        r.viol("names", &format!("{}/case-variant-different-zone", be), format!("{} {}", cfg, v), format!("at {}: {:?} vs {:?}", s, a, b));
                                    }
                                }
                            }
                        }
                    }
                }
                for bad in [format!("{}x", name), format!("{}/", name), format!(" {}", name)] {
                    if names.iter().any(|n| n.eq_ignore_ascii_case(&bad)) {
                        continue;
                    }
                    if let Ok(Ok(t)) = guard(|| db.get(&bad)) {
                        r.viol("names", &format!("{}/unknown-name-found", be), format!("{} {:?}", cfg, bad), format!("{:?}", t.iana_name()));
                    }
                }
            });
            for bad in ["", "Does/Not_Exist", "America", "America/", "/", ".", "..", "../zoneinfo/UTC", "America/New_York\0"] {
                if let Ok(Ok(t)) = guard(|| db.get(bad)) {
                    r.viol("names", &format!("{}/unknown-name-found", be), format!("{} {:?}", cfg, bad), format!("{:?}", t.iana_name()));
                }
            }
        }
    });

    // ---------------------------------------------------------------- POSIX print -> parse
    r.section("posix-roundtrip", || {
        let mut strs: Vec<String> = posix_strings(thorough);
        // every footer of the installed database
        for (_, b) in &sysz {
            if let Ok(raw) = rtz::parse_tzif(b) {
                if let Some(f) = raw.footer {
                    strs.push(String::from_utf8_lossy(&f).into_owned());
                }
            }
        }
        strs.sort();
        strs.dedup();
        r.count("posix_strings", strs.len() as u64);
        let printer = DateTimePrinter::new();
        let parser = DateTimeParser::new();
        strs.par_iter().for_each(|s| {
            let case = format!("{} posix:{}", cfg, s);
            let Ok(model) = rtz::zone_from_posix(s.as_bytes()) else { return };
            let Ok(Ok(tz)) = guard(|| TimeZone::posix(s)) else { return };
            let mut printed = String::new();
            match guard(|| printer.print_time_zone(&tz, &mut printed)) {
                Ok(Ok(())) => {}
                other => {
                    r.viol("posix-roundtrip", "print_time_zone/fails", case.clone(), format!("{:?}", other.map(|x| x.map_err(|e| e.to_string()))));
                    return;
                }
            }
            let tz2 = match guard(|| parser.parse_time_zone(&printed)) {
                Ok(Ok(t)) => t,
                other => {
                    r.viol("posix-roundtrip", "parse_time_zone/rejects-printed-form", case.clone(), format!("printed {:?}: {:?}", printed, other.map(|x| x.map(|_| ()).map_err(|e| e.to_string()))));
                    return;
                }
            };
            let p = probes(&[&model], false);
            let (Ok(a), Ok(b)) = (stream(&tz, &p, true, false), stream(&tz2, &p, true, false)) else { return };
            r.add_states(1);
            r.add_validated(a.len() as u64);
            r.add_transitions(a.len() as u64);
            if let Some(d) = first_diff(&a, &b) {
                r.viol("posix-roundtrip", "posix-print-parse/behaviour-differs", case, format!("printed {:?}: {}", printed, d));
            }
            put(&digests, format!("posix:{}", s), &a, "");
        });
    });

    let _ = std::fs::remove_file(&concat_path);
    if let Some(p) = digest_out {
        std::fs::write(p, serde_json::to_string(&*digests.lock().unwrap()).unwrap()).unwrap();
    }
    r.count("digests", digests.lock().unwrap().len() as u64);
    if r.only_section.is_none() {
        r.require(digests.lock().unwrap().len() > 1000, "more than 1000 zone streams produced");
    }
    r.outcome(cfg, 1);
    r.finish();
}

fn slim_vs_fat(r: &Report, sec: &str, cfg: &str, name: &str, sbytes: &[u8], fbytes: &[u8], thorough: bool) {
    let case = format!("{} {}", cfg, name);
    let (Ok(ms), Ok(mf)) = (rtz::zone_from_tzif(sbytes), rtz::zone_from_tzif(fbytes)) else { return };
    // The two files must describe the same zone in the first place (zic's own
    // slim and fat outputs differ for a few zones, e.g. Asia/Gaza in 2073): the
    // lists of info-changing breakpoints of the two models must coincide.
    let chg = |z: &rtz::Zone| -> Vec<(i64, rtz::Info)> {
        z.effective().iter().filter(|e| e.changing && e.start > TS_MIN_SEC && e.start <= TS_MAX_SEC).map(|e| (e.start, z.infos[e.info as usize].clone())).collect()
    };
    if chg(&ms) != chg(&mf) || ms.infos[ms.pieces[0].info as usize] != mf.infos[mf.pieces[0].info as usize] {
        r.count("slim_vs_fat_skipped_because_zic_outputs_differ", 1);
        return;
    }
    let p = probes(&[&ms, &mf], thorough);
    let (Ok(Ok(ts)), Ok(Ok(tf))) = (guard(|| TimeZone::tzif(name, sbytes)), guard(|| TimeZone::tzif(name, fbytes))) else { return };
    let (a, b) = match (stream(&ts, &p, false, false), stream(&tf, &p, false, false)) {
        (Ok(a), Ok(b)) => (a, b),
        (x, y) => {
            r.viol(sec, "slim-vs-fat/panic", case, format!("{:?} {:?}", x.err(), y.err()));
            return;
        }
    };
    r.add_states(1);
    r.count("slim_vs_fat_pairs", 1);
    r.add_validated(a.len() as u64);
    r.add_transitions(a.len() as u64);
    if let Some(d) = first_diff(&a, &b) {
        // F7: per-year clamping makes the rule-driven (slim) and the recorded (fat) readings differ
        let mut fl: Vec<String> = vec![flags(sbytes), flags(fbytes)].into_iter().flat_map(|f| f.split(',').map(|x| x.to_string()).collect::<Vec<_>>()).filter(|x| !x.is_empty()).collect();
        fl.sort();
        fl.dedup();
        let sig = if fl.is_empty() { "slim-vs-fat/stream-differs".to_string() } else { format!("slim-vs-fat/stream-differs:{}", fl.join(",")) };
        r.viol(sec, &sig, case, d);
    }
}

fn alternating(s: &str) -> String {
    s.chars().enumerate().map(|(i, c)| if i % 2 == 0 { c.to_ascii_uppercase() } else { c.to_ascii_lowercase() }).collect()
}
fn flip_first(s: &str) -> String {
    let mut c = s.chars();
    match c.next() {
        Some(f) => {
            let f2 = if f.is_ascii_uppercase() { f.to_ascii_lowercase() } else { f.to_ascii_uppercase() };
            format!("{}{}", f2, c.as_str())
        }
        None => String::new(),
    }
}
fn rep_small(name: &str) -> bool {
    ["UTC", "Asia/Tokyo", "Europe/Rome", "America/Lima", "Etc/GMT+1", "CET", "Asia/Dili"].contains(&name)
}
fn all_case_variants(name: &str) -> Vec<String> {
    let letters: Vec<usize> = name.char_indices().filter(|(_, c)| c.is_ascii_alphabetic()).map(|(i, _)| i).collect();
    let k = letters.len().min(12);
    let mut out = vec![];
    for mask in 0u32..(1 << k) {
        let mut b = name.as_bytes().to_vec();
        for (j, &i) in letters.iter().take(k).enumerate() {
            b[i] = if mask >> j & 1 == 1 { b[i].to_ascii_uppercase() } else { b[i].to_ascii_lowercase() };
        }
        out.push(String::from_utf8(b).unwrap());
    }
    out
}

/// A POSIX alphabet (same construction as vf::zones::posix_alphabet level 0/1,
/// repeated here because this crate cannot depend on `vf`).
fn posix_strings(thorough: bool) -> Vec<String> {
    let stds: &[(&str, &str, i64)] = &[("AAA", "12", 12 * 3600), ("NST", "3:30", 12600), ("UTC", "0", 0), ("<+0545>", "-5:45", -20700), ("<+13>", "-13", -46800)];
    let days: &[&str] = if thorough { &["J1", "J60", "J365", "0", "59", "364", "M1.1.0", "M3.2.0", "M10.5.0", "M12.5.6"] } else { &["J1", "J60", "J365", "0", "59", "M3.2.0", "M10.5.0"] };
    let times: &[&str] = if thorough { &["", "/0", "/24", "/-1", "/167", "/-167", "/1:30:15"] } else { &["", "/0", "/24", "/-1"] };
    let mut out = vec![];
    for (sa, so, ss) in stds {
        out.push(format!("{}{}", sa, so));
        for delta in [None, Some(1800i64), Some(-3600)] {
            let dst = match delta {
                None => "DDD".to_string(),
                Some(d) => {
                    let p = ss - d;
                    let sign = if p < 0 { "-" } else { "" };
                    let a = p.abs();
                    if a % 3600 == 0 {
                        format!("DDD{}{}", sign, a / 3600)
                    } else {
                        format!("DDD{}{}:{:02}", sign, a / 3600, (a % 3600) / 60)
                    }
                }
            };
            for ds in days {
                for ts in times {
                    for de in days {
                        for te in times {
                            if ds != de {
                                out.push(format!("{}{}{},{}{},{}{}", sa, so, dst, ds, ts, de, te));
                            }
                        }
                    }
                }
            }
        }
    }
    out.retain(|s| {
        let Ok(tz) = rtz::parse_posix(s.as_bytes()) else { return true };
        if tz.dst.is_none() {
            return true;
        }
        [2023i64, 2024, 2025].iter().all(|&y| {
            let (a, b) = tz.year_transitions(y).unwrap();
            let d = (a - b).abs();
            let ylen = cal::days_in_year(y) * 86400;
            d >= 16 * 86400 && ylen - d >= 16 * 86400
        })
    });
    out
}
