//! Reference models for the jiff checks. No dependency on jiff.
pub mod cal;
pub mod num;
pub mod tz;
