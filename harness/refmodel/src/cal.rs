//! R-cal: the proleptic Gregorian calendar, written from the textbook rules.
//!
//! Two artefacts:
//!
//! * [`Succ`], a *successor machine*: the state is one calendar day with all
//!   of its facts, and the only transition is "next day" / "previous day". It
//!   knows nothing but the leap rule, a literal month-length table, and the
//!   definition of the ISO week ("the week with the year's first Thursday").
//!   It is anchored at 1970-01-01 = day 0 = Thursday.
//! * closed forms ([`days_from_civil`], [`civil_from_days`], …) in `i64` with
//!   floor division. These are *not* trusted by themselves: C01 validates them
//!   against the successor machine over the whole supported range before any
//!   other property uses them.
//!
//! No dependency on jiff and no cleverness (no Neri-Schneider, no bit tricks).

pub const MIN_YEAR: i64 = -9999;
pub const MAX_YEAR: i64 = 9999;

/// Weekday numbering used throughout the reference model: 0 = Sunday.
pub type Wd = u8;

pub fn is_leap(y: i64) -> bool {
    y.rem_euclid(4) == 0 && (y.rem_euclid(100) != 0 || y.rem_euclid(400) == 0)
}

const MLEN: [u8; 12] = [31, 28, 31, 30, 31, 30, 31, 31, 30, 31, 30, 31];

pub fn days_in_month(y: i64, m: i64) -> i64 {
    assert!((1..=12).contains(&m));
    if m == 2 && is_leap(y) {
        29
    } else {
        MLEN[(m - 1) as usize] as i64
    }
}

pub fn days_in_year(y: i64) -> i64 {
    if is_leap(y) {
        366
    } else {
        365
    }
}

pub fn valid_date(y: i64, m: i64, d: i64) -> bool {
    (MIN_YEAR..=MAX_YEAR).contains(&y)
        && (1..=12).contains(&m)
        && d >= 1
        && d <= days_in_month(y, m)
}

/// Number of days from 0001-01-01 to Y-01-01 (negative for Y < 1).
fn days_before_year(y: i64) -> i64 {
    let p = y - 1;
    365 * p + p.div_euclid(4) - p.div_euclid(100) + p.div_euclid(400)
}

/// 1-based ordinal day in year.
pub fn day_of_year(y: i64, m: i64, d: i64) -> i64 {
    let mut n = d;
    for mm in 1..m {
        n += days_in_month(y, mm);
    }
    n
}

/// Days since 1970-01-01 (closed form, floor division).
pub fn days_from_civil(y: i64, m: i64, d: i64) -> i64 {
    // 1970-01-01 is 719162 days after 0001-01-01.
    days_before_year(y) + day_of_year(y, m, d) - 1 - 719_162
}

/// Inverse of [`days_from_civil`].
pub fn civil_from_days(n: i64) -> (i64, i64, i64) {
    // Estimate the year, then correct with plain loops.
    let mut y = 1970 + (n * 400).div_euclid(146_097);
    while days_from_civil(y + 1, 1, 1) <= n {
        y += 1;
    }
    while days_from_civil(y, 1, 1) > n {
        y -= 1;
    }
    let mut rem = n - days_from_civil(y, 1, 1); // 0-based day of year
    let mut m = 1;
    loop {
        let l = days_in_month(y, m);
        if rem < l {
            break;
        }
        rem -= l;
        m += 1;
    }
    (y, m, rem + 1)
}

/// Weekday of an epoch day: 0 = Sunday. 1970-01-01 is a Thursday (4).
pub fn weekday_from_days(n: i64) -> Wd {
    (n + 4).rem_euclid(7) as Wd
}

/// ISO 8601 week date of (y, m, d): (iso_year, iso_week, iso_weekday 1=Mon..7=Sun).
///
/// Definition: weeks start on Monday; week 1 of a year is the week containing
/// that year's first Thursday (equivalently: containing January 4).
pub fn iso_week_date(y: i64, m: i64, d: i64) -> (i64, i64, i64) {
    let n = days_from_civil(y, m, d);
    let wd = weekday_from_days(n); // 0=Sun
    let iso_wd = if wd == 0 { 7 } else { wd as i64 };
    // Thursday of this ISO week decides the ISO year.
    let thursday = n - (iso_wd - 1) + 3;
    let (ty, _, _) = civil_from_days(thursday);
    let w1 = iso_week1_monday(ty);
    let week = (thursday - w1).div_euclid(7) + 1;
    (ty, week, iso_wd)
}

/// Epoch day of the Monday of ISO week 1 of ISO year `y`.
pub fn iso_week1_monday(y: i64) -> i64 {
    // The week containing January 4.
    let jan4 = days_from_civil(y, 1, 4);
    let wd = weekday_from_days(jan4);
    let iso_wd = if wd == 0 { 7 } else { wd as i64 };
    jan4 - (iso_wd - 1)
}

/// Number of ISO weeks (52 or 53) in ISO year `y`.
pub fn iso_weeks_in_year(y: i64) -> i64 {
    (iso_week1_monday(y + 1) - iso_week1_monday(y)) / 7
}

/// Epoch day of an ISO week date, if it exists as a calendar date at all.
pub fn days_from_iso(y: i64, w: i64, wd: i64) -> Option<i64> {
    if !(1..=7).contains(&wd) || w < 1 || w > iso_weeks_in_year(y) {
        return None;
    }
    Some(iso_week1_monday(y) + (w - 1) * 7 + (wd - 1))
}

pub fn min_day() -> i64 {
    days_from_civil(MIN_YEAR, 1, 1)
}
pub fn max_day() -> i64 {
    days_from_civil(MAX_YEAR, 12, 31)
}

/// Add months to (y, m) — used by the arithmetic reference. Returns (y, m).
pub fn add_months(y: i64, m: i64, delta: i64) -> (i64, i64) {
    let t = y * 12 + (m - 1) + delta;
    (t.div_euclid(12), t.rem_euclid(12) + 1)
}

/// nth weekday of month (nth in 1..=5 or -1..=-5), None if it does not exist.
pub fn nth_weekday_of_month(y: i64, m: i64, nth: i64, wd: Wd) -> Option<i64> {
    // By plain enumeration of the month's days (as epoch days).
    let len = days_in_month(y, m);
    let e0 = days_from_civil(y, m, 1);
    let days: Vec<i64> =
        (0..len).map(|k| e0 + k).filter(|&e| weekday_from_days(e) == wd).collect();
    if nth > 0 {
        days.get((nth - 1) as usize).copied()
    } else if nth < 0 {
        let k = (-nth) as usize;
        if k <= days.len() {
            Some(days[days.len() - k])
        } else {
            None
        }
    } else {
        None
    }
}

/// The successor machine.
#[derive(Clone, Copy, Debug, PartialEq, Eq)]
pub struct Succ {
    pub y: i64,
    pub m: i64,
    pub d: i64,
    /// 0 = Sunday
    pub wd: Wd,
    /// 1-based
    pub doy: i64,
    pub epoch_day: i64,
    pub iso_y: i64,
    pub iso_w: i64,
}

impl Succ {
    /// 1970-01-01, day 0, Thursday, ISO 1970-W01-4.
    pub fn epoch() -> Succ {
        Succ { y: 1970, m: 1, d: 1, wd: 4, doy: 1, epoch_day: 0, iso_y: 1970, iso_w: 1 }
    }

    pub fn iso_wd(&self) -> i64 {
        if self.wd == 0 {
            7
        } else {
            self.wd as i64
        }
    }

    /// Does the ISO year that starts in/around calendar year `y` have 53
    /// weeks? Textbook rule: a year has 53 weeks iff Jan 1 is a Thursday, or
    /// it is a leap year and Jan 1 is a Wednesday. We avoid that shortcut and
    /// let the machine discover it: the ISO week number resets to 1 on the
    /// Monday whose Thursday lies in the next calendar year.
    pub fn next(&self) -> Succ {
        let mut s = *self;
        s.epoch_day += 1;
        s.wd = (s.wd + 1) % 7;
        if s.d < days_in_month(s.y, s.m) {
            s.d += 1;
            s.doy += 1;
        } else if s.m < 12 {
            s.m += 1;
            s.d = 1;
            s.doy += 1;
        } else {
            s.y += 1;
            s.m = 1;
            s.d = 1;
            s.doy = 1;
        }
        if s.wd == 1 {
            // A new ISO week starts on Monday. Its Thursday is 3 days later;
            // find that Thursday's calendar year by stepping literally.
            let (ty, tdoy) = step_forward(s.y, s.doy, 3);
            if ty != s.iso_y {
                s.iso_y = ty;
                s.iso_w = 1;
            } else {
                // week number = (thursday's day-of-year - 1) / 7 + 1
                s.iso_w = (tdoy - 1) / 7 + 1;
            }
        }
        s
    }

    pub fn prev(&self) -> Succ {
        let mut s = *self;
        s.epoch_day -= 1;
        s.wd = (s.wd + 6) % 7;
        if s.d > 1 {
            s.d -= 1;
            s.doy -= 1;
        } else if s.m > 1 {
            s.m -= 1;
            s.d = days_in_month(s.y, s.m);
            s.doy -= 1;
        } else {
            s.y -= 1;
            s.m = 12;
            s.d = 31;
            s.doy = days_in_year(s.y);
        }
        if s.wd == 0 {
            // We just stepped back onto a Sunday: the last day of the previous
            // ISO week. Its Thursday is 3 days earlier.
            let (ty, tdoy) = step_backward(s.y, s.doy, 3);
            s.iso_y = ty;
            s.iso_w = (tdoy - 1) / 7 + 1;
        }
        s
    }
}

fn step_forward(mut y: i64, mut doy: i64, k: i64) -> (i64, i64) {
    for _ in 0..k {
        if doy < days_in_year(y) {
            doy += 1;
        } else {
            y += 1;
            doy = 1;
        }
    }
    (y, doy)
}

fn step_backward(mut y: i64, mut doy: i64, k: i64) -> (i64, i64) {
    for _ in 0..k {
        if doy > 1 {
            doy -= 1;
        } else {
            y -= 1;
            doy = days_in_year(y);
        }
    }
    (y, doy)
}

#[cfg(test)]
mod tests {
    use super::*;
    #[test]
    fn anchors() {
        assert_eq!(days_from_civil(1970, 1, 1), 0);
        assert_eq!(days_from_civil(2000, 3, 1), 11017);
        assert_eq!(civil_from_days(11017), (2000, 3, 1));
        assert_eq!(weekday_from_days(0), 4);
        assert_eq!(iso_week_date(2021, 1, 3), (2020, 53, 7));
        assert_eq!(iso_week_date(2024, 12, 30), (2025, 1, 1));
        assert_eq!(min_day(), -4371587);
        assert_eq!(max_day(), 2932896);
    }
    #[test]
    fn succ_matches_closed_form_sample() {
        let mut s = Succ::epoch();
        for _ in 0..200_000 {
            let (y, m, d) = civil_from_days(s.epoch_day);
            assert_eq!((y, m, d), (s.y, s.m, s.d));
            let (iy, iw, iwd) = iso_week_date(y, m, d);
            assert_eq!((iy, iw, iwd), (s.iso_y, s.iso_w, s.iso_wd()), "{:?}", s);
            s = s.next();
        }
        let mut s = Succ::epoch();
        for _ in 0..200_000 {
            let (y, m, d) = civil_from_days(s.epoch_day);
            assert_eq!((y, m, d), (s.y, s.m, s.d));
            let (iy, iw, iwd) = iso_week_date(y, m, d);
            assert_eq!((iy, iw, iwd), (s.iso_y, s.iso_w, s.iso_wd()), "{:?}", s);
            s = s.prev();
        }
    }
}
