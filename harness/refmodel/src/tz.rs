//! R-tz: an independent TZif reader and POSIX TZ evaluator.
//!
//! A zone is *materialised* as an explicit list of pieces
//! `[(start_i, info_i)]` over the whole supported range: the recorded
//! transitions, then the footer rule's transitions for every year computed
//! exactly (rule local time minus the offset in force before the change; no
//! clamping to the year). `offset_at` is the linear definition over the list.
//! The civil -> instant classification is *defined* from it by counting
//! pre-images.

use crate::cal;

#[derive(Clone, Debug, PartialEq, Eq, Hash)]
pub struct Info {
    pub utoff: i32,
    pub dst: bool,
    pub abbrev: String,
}

#[derive(Clone, Debug)]
pub struct Piece {
    /// First instant (unix seconds) of the piece; `i64::MIN` for the initial one.
    pub start: i64,
    pub info: u32,
    /// true if this piece boundary comes from the recorded data (or is the
    /// hand-over to the footer at the last recorded transition).
    pub recorded: bool,
    /// for rule-generated boundaries: true when the exact UTC instant falls in
    /// a different Gregorian year than the rule's own year (see F7).
    pub crosses_year: bool,
    /// for rule-generated boundaries: the rule's own year.
    pub rule_year: i64,
}

#[derive(Clone, Debug)]
pub struct Eff {
    pub start: i64,
    pub info: u32,
    pub recorded: bool,
    pub changing: bool,
    pub crosses_year: bool,
    pub rule_year: i64,
}

#[derive(Clone, Debug)]
pub struct Zone {
    pub infos: Vec<Info>,
    pub pieces: Vec<Piece>,
    pub n_recorded: usize,
    pub footer: Option<String>,
    pub version: u8,
}

// ---------------------------------------------------------------------------
// POSIX TZ strings
// ---------------------------------------------------------------------------

#[derive(Clone, Debug, PartialEq, Eq)]
pub enum RuleDay {
    /// Jn: 1..=365, February 29 never counted.
    JulianNoLeap(i64),
    /// n: 0..=365, February 29 counted.
    JulianLeap(i64),
    /// Mm.w.d
    MonthWeekDay { m: i64, w: i64, d: i64 },
}

#[derive(Clone, Debug, PartialEq, Eq)]
pub struct RuleSpec {
    pub day: RuleDay,
    /// seconds after (or before) local midnight; default 7200.
    pub time: i64,
}

#[derive(Clone, Debug, PartialEq, Eq)]
pub struct PosixDst {
    pub abbrev: String,
    pub utoff: i32,
    pub start: RuleSpec,
    pub end: RuleSpec,
}

#[derive(Clone, Debug, PartialEq, Eq)]
pub struct PosixTz {
    pub std_abbrev: String,
    pub std_utoff: i32,
    pub dst: Option<PosixDst>,
}

struct P<'a> {
    s: &'a [u8],
    i: usize,
}

impl<'a> P<'a> {
    fn peek(&self) -> Option<u8> {
        self.s.get(self.i).copied()
    }
    fn bump(&mut self) -> Option<u8> {
        let b = self.peek()?;
        self.i += 1;
        Some(b)
    }
    fn abbrev(&mut self) -> Result<String, String> {
        match self.peek() {
            Some(b'<') => {
                self.i += 1;
                let st = self.i;
                while let Some(b) = self.peek() {
                    if b == b'>' {
                        break;
                    }
                    if !(b.is_ascii_alphanumeric() || b == b'+' || b == b'-') {
                        return Err(format!("bad quoted abbrev byte {:?}", b as char));
                    }
                    self.i += 1;
                }
                if self.peek() != Some(b'>') {
                    return Err("unterminated <".into());
                }
                let a = std::str::from_utf8(&self.s[st..self.i]).unwrap().to_string();
                self.i += 1;
                if a.len() < 3 {
                    return Err("abbrev too short".into());
                }
                Ok(a)
            }
            _ => {
                let st = self.i;
                while let Some(b) = self.peek() {
                    if !b.is_ascii_alphabetic() {
                        break;
                    }
                    self.i += 1;
                }
                let a = std::str::from_utf8(&self.s[st..self.i]).unwrap().to_string();
                if a.len() < 3 {
                    return Err("abbrev too short".into());
                }
                Ok(a)
            }
        }
    }
    fn num(&mut self, maxdigits: usize) -> Result<i64, String> {
        let st = self.i;
        while let Some(b) = self.peek() {
            if !b.is_ascii_digit() || self.i - st >= maxdigits {
                break;
            }
            self.i += 1;
        }
        if st == self.i {
            return Err("expected digits".into());
        }
        Ok(std::str::from_utf8(&self.s[st..self.i]).unwrap().parse::<i64>().unwrap())
    }
    /// [+-]h[h[h]][:mm[:ss]] -> seconds, sign as written.
    fn hms(&mut self, max_hour: i64, hour_digits: usize) -> Result<i64, String> {
        let mut sign = 1;
        match self.peek() {
            Some(b'+') => {
                self.i += 1;
            }
            Some(b'-') => {
                self.i += 1;
                sign = -1;
            }
            _ => {}
        }
        let h = self.num(hour_digits)?;
        if h > max_hour {
            return Err("hour out of range".into());
        }
        let mut m = 0;
        let mut s = 0;
        if self.peek() == Some(b':') {
            self.i += 1;
            m = self.num(2)?;
            if m > 59 {
                return Err("minute".into());
            }
            if self.peek() == Some(b':') {
                self.i += 1;
                s = self.num(2)?;
                if s > 59 {
                    return Err("second".into());
                }
            }
        }
        Ok(sign * (h * 3600 + m * 60 + s))
    }
    fn rule(&mut self) -> Result<RuleSpec, String> {
        let day = match self.peek() {
            Some(b'J') => {
                self.i += 1;
                let n = self.num(3)?;
                if !(1..=365).contains(&n) {
                    return Err("Jn range".into());
                }
                RuleDay::JulianNoLeap(n)
            }
            Some(b'M') => {
                self.i += 1;
                let m = self.num(2)?;
                if self.bump() != Some(b'.') {
                    return Err("M .".into());
                }
                let w = self.num(1)?;
                if self.bump() != Some(b'.') {
                    return Err("M ..".into());
                }
                let d = self.num(1)?;
                if !(1..=12).contains(&m) || !(1..=5).contains(&w) || !(0..=6).contains(&d) {
                    return Err("M range".into());
                }
                RuleDay::MonthWeekDay { m, w, d }
            }
            _ => {
                let n = self.num(3)?;
                if !(0..=365).contains(&n) {
                    return Err("n range".into());
                }
                RuleDay::JulianLeap(n)
            }
        };
        let mut time = 7200;
        if self.peek() == Some(b'/') {
            self.i += 1;
            time = self.hms(167, 3)?;
        }
        Ok(RuleSpec { day, time })
    }
}

pub fn parse_posix(s: &[u8]) -> Result<PosixTz, String> {
    let mut p = P { s, i: 0 };
    let std_abbrev = p.abbrev()?;
    // POSIX offsets are positive WEST of Greenwich.
    let std_utoff = -p.hms(25, 2)? as i32;
    if p.i == s.len() {
        return Ok(PosixTz { std_abbrev, std_utoff, dst: None });
    }
    let dst_abbrev = p.abbrev()?;
    let mut dst_utoff = std_utoff + 3600;
    if !matches!(p.peek(), Some(b',') | None) {
        dst_utoff = -p.hms(25, 2)? as i32;
    }
    if p.bump() != Some(b',') {
        return Err("DST without rule".into());
    }
    let start = p.rule()?;
    if p.bump() != Some(b',') {
        return Err("expected , between rules".into());
    }
    let end = p.rule()?;
    if p.i != s.len() {
        return Err("trailing data".into());
    }
    Ok(PosixTz {
        std_abbrev,
        std_utoff,
        dst: Some(PosixDst { abbrev: dst_abbrev, utoff: dst_utoff, start, end }),
    })
}

impl RuleDay {
    /// Epoch day of the rule day in year y.
    pub fn epoch_day(&self, y: i64) -> i64 {
        match *self {
            RuleDay::JulianNoLeap(n) => {
                // Day n of a 365-day year; Feb 29 is never counted, so days
                // after Feb 28 shift by one in leap years.
                let jan1 = cal::days_from_civil(y, 1, 1);
                let mut off = n - 1;
                if cal::is_leap(y) && n >= 60 {
                    off += 1;
                }
                jan1 + off
            }
            RuleDay::JulianLeap(n) => cal::days_from_civil(y, 1, 1) + n,
            RuleDay::MonthWeekDay { m, w, d } => {
                // w-th occurrence of weekday d in month m; w=5 means last.
                let mut hits = vec![];
                for dd in 1..=cal::days_in_month(y, m) {
                    let e = cal::days_from_civil(y, m, dd);
                    if cal::weekday_from_days(e) as i64 == d {
                        hits.push(e);
                    }
                }
                if w == 5 {
                    *hits.last().unwrap()
                } else {
                    hits[(w - 1) as usize]
                }
            }
        }
    }
}

impl PosixTz {
    pub fn std_info(&self) -> Info {
        Info { utoff: self.std_utoff, dst: false, abbrev: self.std_abbrev.clone() }
    }
    pub fn dst_info(&self) -> Option<Info> {
        self.dst.as_ref().map(|d| Info { utoff: d.utoff, dst: true, abbrev: d.abbrev.clone() })
    }
    /// The two exact transition instants of rule-year `y`:
    /// (instant DST starts, instant DST ends).
    pub fn year_transitions(&self, y: i64) -> Option<(i64, i64)> {
        let d = self.dst.as_ref()?;
        let start = d.start.day.epoch_day(y) * 86400 + d.start.time - self.std_utoff as i64;
        let end = d.end.day.epoch_day(y) * 86400 + d.end.time - d.utoff as i64;
        Some((start, end))
    }
}

fn year_of_unix(t: i64) -> i64 {
    cal::civil_from_days(t.div_euclid(86400)).0
}

/// Append the footer's pieces from instant `from` (inclusive) on.
/// `infos` is extended as needed. `first_year`..=`last_year` rule years.
fn materialise_posix(
    tz: &PosixTz,
    from: i64,
    infos: &mut Vec<Info>,
    pieces: &mut Vec<Piece>,
    last_year: i64,
) {
    let mut intern = |i: Info, infos: &mut Vec<Info>| -> u32 {
        if let Some(k) = infos.iter().position(|x| *x == i) {
            k as u32
        } else {
            infos.push(i);
            (infos.len() - 1) as u32
        }
    };
    let std = intern(tz.std_info(), infos);
    if tz.dst.is_none() {
        pieces.push(Piece { start: from, info: std, recorded: true, crosses_year: false, rule_year: 0 });
        return;
    }
    let dst = intern(tz.dst_info().unwrap(), infos);
    let y0 = if from == i64::MIN { cal::MIN_YEAR - 1 } else { year_of_unix(from) - 2 };
    // All rule transitions, chronological by generation, then stable sort.
    let mut evs: Vec<(i64, u32, bool, i64)> = vec![];
    for y in y0..=last_year {
        let (s, e) = tz.year_transitions(y).unwrap();
        let sc = year_of_unix_safe(s) != y;
        let ec = year_of_unix_safe(e) != y;
        if s <= e {
            evs.push((s, dst, sc, y));
            evs.push((e, std, ec, y));
        } else {
            evs.push((e, std, ec, y));
            evs.push((s, dst, sc, y));
        }
    }
    evs.sort_by_key(|x| x.0);
    // Info in force at `from`: the last event with T <= from.
    let mut cur = std;
    let mut k = 0;
    while k < evs.len() && evs[k].0 <= from {
        cur = evs[k].1;
        k += 1;
    }
    // If no event precedes `from` at all (from == MIN), decide by looking at
    // which event comes first: before a "start" we are in std, before an
    // "end" we are in dst.
    if k == 0 && !evs.is_empty() {
        cur = if evs[0].1 == dst { std } else { dst };
    }
    pieces.push(Piece { start: from, info: cur, recorded: true, crosses_year: false, rule_year: 0 });
    for ev in &evs[k..] {
        pieces.push(Piece { start: ev.0, info: ev.1, recorded: false, crosses_year: ev.2, rule_year: ev.3 });
    }
}

fn year_of_unix_safe(t: i64) -> i64 {
    year_of_unix(t)
}

/// Build a zone from a POSIX TZ string alone.
pub fn zone_from_posix(s: &[u8]) -> Result<Zone, String> {
    let tz = parse_posix(s)?;
    let mut infos = vec![];
    let mut pieces = vec![];
    materialise_posix(&tz, i64::MIN, &mut infos, &mut pieces, cal::MAX_YEAR + 1);
    Ok(Zone {
        infos,
        pieces,
        n_recorded: 0,
        footer: Some(String::from_utf8_lossy(s).into_owned()),
        version: 0,
    })
}

pub fn zone_fixed(utoff: i32, abbrev: &str) -> Zone {
    Zone {
        infos: vec![Info { utoff, dst: false, abbrev: abbrev.to_string() }],
        pieces: vec![Piece { start: i64::MIN, info: 0, recorded: true, crosses_year: false, rule_year: 0 }],
        n_recorded: 0,
        footer: None,
        version: 0,
    }
}

// ---------------------------------------------------------------------------
// TZif
// ---------------------------------------------------------------------------

#[derive(Clone, Debug)]
pub struct RawTzif {
    pub version: u8,
    pub times: Vec<i64>,
    pub idx: Vec<u8>,
    pub types: Vec<(i32, bool, u8)>,
    pub chars: Vec<u8>,
    pub footer: Option<Vec<u8>>,
    pub leapcnt: usize,
}

fn be32(b: &[u8]) -> u32 {
    u32::from_be_bytes([b[0], b[1], b[2], b[3]])
}

struct Hdr {
    version: u8,
    isutcnt: usize,
    isstdcnt: usize,
    leapcnt: usize,
    timecnt: usize,
    typecnt: usize,
    charcnt: usize,
}

fn hdr(b: &[u8]) -> Result<Hdr, String> {
    if b.len() < 44 || &b[0..4] != b"TZif" {
        return Err("bad magic".into());
    }
    let version = match b[4] {
        0 => 1,
        v @ b'2'..=b'9' => v - b'0',
        _ => return Err("bad version".into()),
    };
    Ok(Hdr {
        version,
        isutcnt: be32(&b[20..]) as usize,
        isstdcnt: be32(&b[24..]) as usize,
        leapcnt: be32(&b[28..]) as usize,
        timecnt: be32(&b[32..]) as usize,
        typecnt: be32(&b[36..]) as usize,
        charcnt: be32(&b[40..]) as usize,
    })
}

fn block_len(h: &Hdr, tsize: usize) -> usize {
    h.timecnt * tsize
        + h.timecnt
        + h.typecnt * 6
        + h.charcnt
        + h.leapcnt * (tsize + 4)
        + h.isstdcnt
        + h.isutcnt
}

pub fn parse_tzif(b: &[u8]) -> Result<RawTzif, String> {
    let h1 = hdr(b)?;
    let (h, mut off, tsize) = if h1.version >= 2 {
        let skip = 44 + block_len(&h1, 4);
        if b.len() < skip + 44 {
            return Err("truncated before v2 header".into());
        }
        (hdr(&b[skip..])?, skip + 44, 8usize)
    } else {
        (h1, 44usize, 4usize)
    };
    if b.len() < off + block_len(&h, tsize) {
        return Err("truncated data block".into());
    }
    let mut times = Vec::with_capacity(h.timecnt);
    for i in 0..h.timecnt {
        let p = &b[off + i * tsize..];
        times.push(if tsize == 8 {
            i64::from_be_bytes([p[0], p[1], p[2], p[3], p[4], p[5], p[6], p[7]])
        } else {
            be32(p) as i32 as i64
        });
    }
    off += h.timecnt * tsize;
    let idx = b[off..off + h.timecnt].to_vec();
    off += h.timecnt;
    let mut types = vec![];
    for i in 0..h.typecnt {
        let p = &b[off + i * 6..];
        types.push((be32(p) as i32, p[4] != 0, p[5]));
    }
    off += h.typecnt * 6;
    let chars = b[off..off + h.charcnt].to_vec();
    off += h.charcnt;
    off += h.leapcnt * (tsize + 4) + h.isstdcnt + h.isutcnt;
    let mut footer = None;
    if tsize == 8 {
        if b.get(off) != Some(&b'\n') {
            return Err("missing footer newline".into());
        }
        let rest = &b[off + 1..];
        let end = rest.iter().position(|&c| c == b'\n').ok_or("unterminated footer")?;
        if end > 0 {
            footer = Some(rest[..end].to_vec());
        }
    }
    if types.is_empty() {
        return Err("no types".into());
    }
    Ok(RawTzif { version: h.version, times, idx, types, chars, footer, leapcnt: h.leapcnt })
}

fn designation(chars: &[u8], i: u8) -> Result<String, String> {
    let i = i as usize;
    if i >= chars.len() {
        return Err("designation index".into());
    }
    let end = chars[i..].iter().position(|&c| c == 0).ok_or("unterminated designation")?;
    Ok(String::from_utf8_lossy(&chars[i..i + end]).into_owned())
}

/// Materialise a zone from TZif bytes. `min_t`/`max_t` bound the instants the
/// caller cares about (transitions outside are clamped away as jiff does:
/// everything below `min_t` is treated as "before").
pub fn zone_from_tzif(b: &[u8]) -> Result<Zone, String> {
    let raw = parse_tzif(b)?;
    let mut infos: Vec<Info> = vec![];
    let mut tmap: Vec<u32> = vec![];
    for &(utoff, dst, di) in &raw.types {
        let inf = Info { utoff, dst, abbrev: designation(&raw.chars, di)? };
        // do not merge equal types: keep index identity simple
        infos.push(inf);
        tmap.push((infos.len() - 1) as u32);
    }
    let mut pieces = vec![Piece { start: i64::MIN, info: 0, recorded: true, crosses_year: false, rule_year: 0 }];
    let n = raw.times.len();
    for k in 0..n {
        let ti = raw.idx[k] as usize;
        if ti >= raw.types.len() {
            return Err("type index".into());
        }
        if k > 0 && raw.times[k] <= raw.times[k - 1] {
            return Err("unsorted transitions".into());
        }
        pieces.push(Piece { start: raw.times[k], info: tmap[ti], recorded: true, crosses_year: false, rule_year: 0 });
    }
    let mut footer_s = None;
    if let Some(f) = &raw.footer {
        let tz = parse_posix(f)?;
        footer_s = Some(String::from_utf8_lossy(f).into_owned());
        // "Local time for timestamps on or after the last transition is
        // specified by the TZ string in the footer".
        let from = if n > 0 { raw.times[n - 1] } else { i64::MIN };
        let last_recorded = if n > 0 { pieces.pop().map(|p| p.info) } else { pieces.clear(); None };
        let at = pieces.len();
        materialise_posix(&tz, from, &mut infos, &mut pieces, cal::MAX_YEAR + 1);
        // The local time type recorded for the last transition stays in force
        // until the first transition the footer generates strictly after it
        // (this is how tzcode, glibc and zdump read TZif data; zic relies on
        // it, e.g. for America/Ojinaga 2022-10-30 and America/Nuuk 2023, where
        // the footer's own rule would say otherwise at that instant).
        if let Some(info) = last_recorded {
            pieces[at].info = info;
        }
    }
    Ok(Zone { infos, pieces, n_recorded: n, footer: footer_s, version: raw.version })
}

impl Zone {
    pub fn piece_index_at(&self, sec: i64) -> usize {
        // last piece with start <= sec
        match self.pieces.binary_search_by(|p| p.start.cmp(&sec)) {
            Ok(mut i) => {
                // several pieces may share a start (zero-length pieces): take the last
                while i + 1 < self.pieces.len() && self.pieces[i + 1].start == sec {
                    i += 1;
                }
                i
            }
            Err(i) => i - 1,
        }
    }
    pub fn info_at(&self, sec: i64) -> &Info {
        &self.infos[self.pieces[self.piece_index_at(sec)].info as usize]
    }
    /// `sec`/`ns` with ns in 0..1e9 after floor normalisation by the caller.
    pub fn utoff_at(&self, sec: i64) -> i32 {
        self.info_at(sec).utoff
    }
    pub fn piece_end(&self, i: usize) -> i64 {
        if i + 1 < self.pieces.len() {
            self.pieces[i + 1].start
        } else {
            i64::MAX
        }
    }
    /// All instants (unix seconds) whose local wall clock reads `civil`
    /// (seconds since 1970-01-01T00:00:00 *local*), with the piece index.
    pub fn preimages(&self, civil: i64) -> Vec<(i64, usize)> {
        let lo = self.piece_index_at(civil.saturating_sub(100_000));
        let hi = self.piece_index_at(civil.saturating_add(100_000));
        let mut out = vec![];
        for i in lo..=hi {
            let p = &self.pieces[i];
            let o = self.infos[p.info as usize].utoff as i64;
            let t = civil - o;
            if t >= p.start && t < self.piece_end(i) {
                out.push((t, i));
            }
        }
        out
    }
    /// For a civil time with no pre-image: the (before, after) pieces around the
    /// gap: the unique k with civil - o_{k-1} >= start_k and civil - o_k < start_k.
    /// Returns all such k (more than one means pathological data).
    pub fn gap_around(&self, civil: i64) -> Vec<usize> {
        let lo = self.piece_index_at(civil.saturating_sub(100_000));
        let hi = self.piece_index_at(civil.saturating_add(100_000));
        let mut out = vec![];
        for k in (lo + 1).max(1)..=hi.min(self.pieces.len() - 1) {
            let ob = self.infos[self.pieces[k - 1].info as usize].utoff as i64;
            let oa = self.infos[self.pieces[k].info as usize].utoff as i64;
            let s = self.pieces[k].start;
            if civil - ob >= s && civil - oa < s {
                out.push(k);
            }
        }
        out
    }
    /// The effective breakpoint list: pieces sharing a start are collapsed to
    /// the last one, and each entry says whether the info really changes there.
    pub fn effective(&self) -> Vec<Eff> {
        let mut out: Vec<Eff> = vec![];
        let mut i = 0;
        while i < self.pieces.len() {
            let mut j = i;
            let mut recorded = self.pieces[i].recorded;
            let mut crosses = self.pieces[i].crosses_year;
            while j + 1 < self.pieces.len() && self.pieces[j + 1].start == self.pieces[i].start {
                j += 1;
                recorded |= self.pieces[j].recorded;
                crosses |= self.pieces[j].crosses_year;
            }
            let info = self.pieces[j].info;
            let changing = match out.last() {
                None => false,
                Some(prev) => self.infos[prev.info as usize] != self.infos[info as usize],
            };
            out.push(Eff { start: self.pieces[i].start, info, recorded, changing, crosses_year: crosses, rule_year: self.pieces[j].rule_year });
            i = j + 1;
        }
        out
    }
    /// Indices k>=1 of pieces whose start changes the info (offset, dst or abbrev).
    pub fn changing(&self) -> Vec<usize> {
        (1..self.pieces.len())
            .filter(|&k| self.infos[self.pieces[k].info as usize] != self.infos[self.pieces[k - 1].info as usize])
            .collect()
    }
}

#[cfg(test)]
mod tests {
    use super::*;
    #[test]
    fn posix_ny() {
        let z = zone_from_posix(b"EST5EDT,M3.2.0,M11.1.0").unwrap();
        // 2024-03-10T07:00:00Z DST starts
        let t = cal::days_from_civil(2024, 3, 10) * 86400 + 7 * 3600;
        assert_eq!(z.info_at(t - 1).utoff, -18000);
        assert_eq!(z.info_at(t).utoff, -14400);
        let e = cal::days_from_civil(2024, 11, 3) * 86400 + 6 * 3600;
        assert_eq!(z.info_at(e - 1).utoff, -14400);
        assert_eq!(z.info_at(e).utoff, -18000);
        // gap: 2024-03-10T02:30 local
        let c = cal::days_from_civil(2024, 3, 10) * 86400 + 2 * 3600 + 1800;
        assert_eq!(z.preimages(c).len(), 0);
        assert_eq!(z.gap_around(c).len(), 1);
        let c = cal::days_from_civil(2024, 11, 3) * 86400 + 3600 + 1800;
        assert_eq!(z.preimages(c).len(), 2);
    }
    #[test]
    fn sys_ny() {
        let b = std::fs::read("/usr/share/zoneinfo/America/New_York").unwrap();
        let z = zone_from_tzif(&b).unwrap();
        let t = cal::days_from_civil(2024, 3, 10) * 86400 + 7 * 3600;
        assert_eq!(z.info_at(t - 1).abbrev, "EST");
        assert_eq!(z.info_at(t).abbrev, "EDT");
        let t = cal::days_from_civil(2050, 3, 13) * 86400 + 7 * 3600;
        assert_eq!(z.info_at(t - 1).abbrev, "EST");
        assert_eq!(z.info_at(t).abbrev, "EDT");
        assert_eq!(z.info_at(i64::MIN + 1).abbrev, "LMT");
    }
}
