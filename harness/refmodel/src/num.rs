//! R-num: exact integer / rational arithmetic and the rounding-mode table.

#[derive(Clone, Copy, Debug, PartialEq, Eq, Hash, PartialOrd, Ord)]
pub enum Mode {
    Ceil,
    Floor,
    Expand,
    Trunc,
    HalfCeil,
    HalfFloor,
    HalfExpand,
    HalfTrunc,
    HalfEven,
}

pub const MODES: [Mode; 9] = [
    Mode::Ceil,
    Mode::Floor,
    Mode::Expand,
    Mode::Trunc,
    Mode::HalfCeil,
    Mode::HalfFloor,
    Mode::HalfExpand,
    Mode::HalfTrunc,
    Mode::HalfEven,
];

/// Round `x` to a multiple of `inc` (> 0) according to the documented table.
///
/// Direct transcription: let lo = floor(x/inc)*inc, hi = lo+inc (if x is a
/// multiple, result is x). Directed modes pick lo/hi by sign; half modes pick
/// the nearer, and on an exact tie apply the tie rule.
pub fn round(x: i128, inc: i128, mode: Mode) -> i128 {
    assert!(inc > 0);
    let q = x.div_euclid(inc);
    let r = x.rem_euclid(inc);
    if r == 0 {
        return x;
    }
    let lo = q * inc;
    let hi = lo + inc;
    let neg = x < 0;
    let (toward_zero, away_zero) = if neg { (hi, lo) } else { (lo, hi) };
    let twice = 2 * r;
    let cmp = twice.cmp(&inc); // Less: nearer lo; Greater: nearer hi
    use core::cmp::Ordering::*;
    match mode {
        Mode::Ceil => hi,
        Mode::Floor => lo,
        Mode::Expand => away_zero,
        Mode::Trunc => toward_zero,
        Mode::HalfCeil => match cmp {
            Less => lo,
            Greater => hi,
            Equal => hi,
        },
        Mode::HalfFloor => match cmp {
            Less => lo,
            Greater => hi,
            Equal => lo,
        },
        Mode::HalfExpand => match cmp {
            Less => lo,
            Greater => hi,
            Equal => away_zero,
        },
        Mode::HalfTrunc => match cmp {
            Less => lo,
            Greater => hi,
            Equal => toward_zero,
        },
        Mode::HalfEven => match cmp {
            Less => lo,
            Greater => hi,
            Equal => {
                if q.rem_euclid(2) == 0 {
                    lo
                } else {
                    hi
                }
            }
        },
    }
}

/// Given two candidate neighbours `a <= x <= b` on a line (a < b), and the exact
/// rational position of x, which one does `mode` select?
/// `num/den` = (x - a)/(b - a) in [0,1]; `neg`: the quantity being rounded is
/// negative (so "toward zero" is `b`, i.e. the one closer to zero is the upper).
/// `a_even`: whether neighbour `a` is the "even" multiple.
/// Returns 0 for a, 1 for b. If num==0 returns 0, if num==den returns 1.
pub fn pick(num: i128, den: i128, neg: bool, a_even: bool, mode: Mode) -> u8 {
    assert!(den > 0 && num >= 0 && num <= den);
    if num == 0 {
        return 0;
    }
    if num == den {
        return 1;
    }
    let (toward_zero, away) = if neg { (1u8, 0u8) } else { (0u8, 1u8) };
    use core::cmp::Ordering::*;
    let cmp = (2 * num).cmp(&den);
    match mode {
        Mode::Ceil => 1,
        Mode::Floor => 0,
        Mode::Expand => away,
        Mode::Trunc => toward_zero,
        _ => match cmp {
            Less => 0,
            Greater => 1,
            Equal => match mode {
                Mode::HalfCeil => 1,
                Mode::HalfFloor => 0,
                Mode::HalfExpand => away,
                Mode::HalfTrunc => toward_zero,
                Mode::HalfEven => {
                    if a_even {
                        0
                    } else {
                        1
                    }
                }
                _ => unreachable!(),
            },
        },
    }
}

pub fn divisors(n: i64) -> Vec<i64> {
    (1..=n).filter(|d| n % d == 0).collect()
}

/// Truncating division toward zero on i128 (Rust's `/` already truncates).
pub fn div_trunc(a: i128, b: i128) -> i128 {
    a / b
}

pub const NS_PER_SEC: i128 = 1_000_000_000;
pub const NS_PER_DAY: i128 = 86_400 * NS_PER_SEC;

/// Exact value of an f64 as (mantissa, exponent) with value = m * 2^e.
pub fn f64_decompose(x: f64) -> Option<(i128, i32)> {
    if !x.is_finite() {
        return None;
    }
    let bits = x.to_bits();
    let sign: i128 = if bits >> 63 == 1 { -1 } else { 1 };
    let exp = ((bits >> 52) & 0x7ff) as i32;
    let frac = (bits & ((1u64 << 52) - 1)) as i128;
    let (m, e) = if exp == 0 { (frac, -1074) } else { (frac | (1i128 << 52), exp - 1075) };
    Some((sign * m, e))
}

/// floor(x * 1e9) as exact i128 nanoseconds for finite f64 x with |x| < 2^70, plus
/// whether the product was exact. Returns None on magnitude too large.
pub fn f64_secs_to_ns_floor(x: f64) -> Option<(i128, bool)> {
    let (m, e) = f64_decompose(x)?;
    if m == 0 {
        return Some((0, true));
    }
    let prod = m.checked_mul(1_000_000_000)?; // m < 2^53, fits
    if e >= 0 {
        if e > 40 {
            return None;
        }
        Some((prod.checked_shl(e as u32)?, true))
    } else {
        let sh = (-e) as u32;
        if sh >= 127 {
            // |value| tiny
            return Some((if prod < 0 { -1 } else { 0 }, false));
        }
        let d = 1i128 << sh;
        Some((prod.div_euclid(d), prod.rem_euclid(d) == 0))
    }
}

#[cfg(test)]
mod tests {
    use super::*;
    #[test]
    fn table() {
        // From the Temporal rounding table, increment 10.
        let xs = [-15, -12, -18, 15, 12, 18, 25, -25];
        let exp = |m| xs.iter().map(|&x| round(x, 10, m)).collect::<Vec<_>>();
        assert_eq!(exp(Mode::Ceil), vec![-10, -10, -10, 20, 20, 20, 30, -20]);
        assert_eq!(exp(Mode::Floor), vec![-20, -20, -20, 10, 10, 10, 20, -30]);
        assert_eq!(exp(Mode::Expand), vec![-20, -20, -20, 20, 20, 20, 30, -30]);
        assert_eq!(exp(Mode::Trunc), vec![-10, -10, -10, 10, 10, 10, 20, -20]);
        assert_eq!(exp(Mode::HalfCeil), vec![-10, -10, -20, 20, 10, 20, 30, -20]);
        assert_eq!(exp(Mode::HalfFloor), vec![-20, -10, -20, 10, 10, 20, 20, -30]);
        assert_eq!(exp(Mode::HalfExpand), vec![-20, -10, -20, 20, 10, 20, 30, -30]);
        assert_eq!(exp(Mode::HalfTrunc), vec![-10, -10, -20, 10, 10, 20, 20, -20]);
        assert_eq!(exp(Mode::HalfEven), vec![-20, -10, -20, 20, 10, 20, 20, -20]);
    }
}
