#[path = "../../vf/src/guard.rs"]
#[allow(dead_code)]
mod guard;
#[path = "../../vf/src/report.rs"]
#[allow(dead_code)]
mod report;
fn main() {
    let r = report::Report::from_args("C13");
    r.finish();
}
