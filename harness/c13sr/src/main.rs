//! C13: every Zoned value is internally consistent with its time zone.
//!
//! E2: explicit-state breadth-first search over operation histories with
//! `stateright`. Every transition EXECUTES THE REAL jiff OPERATION on a real
//! `Zoned` (rebuilt from the canonical state with `Zoned::new(instant, zone)`),
//! and the invariant is evaluated on every produced value BEFORE it is
//! canonicalised to `(instant, zone)`:
//!
//!   I1  z.offset()   == z.time_zone().to_offset(z.timestamp())
//!   I2  z.datetime() == z.offset().to_datetime(z.timestamp())
//!   I3  the zone is the expected one (with_time_zone / in_tz -> the target
//!       zone, every other operation -> unchanged)
//!   I4  with_time_zone / in_tz keep the instant exactly
//!   I5  ==, cmp and Hash depend on the instant only (compared with
//!       `Zoned::new(same instant, another zone of the run)`)
//!
//! A violated invariant is a property violation (recorded through `Report`)
//! and that value is NOT expanded. Canonicalisation is sound because, when
//! I1-I3 hold, the produced value is field-for-field equal to
//! `Zoned::new(instant, zone)` (DESIGN.md section 3 / C13).
//!
//! State = (instant ns, zone index, depth). The depth is part of the state on
//! purpose: stateright's multi-threaded BFS is not level-synchronous, so its
//! own `target_max_depth` cut-off would make the explored set depend on thread
//! timing (a value first reached through a longer path would never be
//! expanded). With the depth in the state the model itself is finite (no
//! actions at depth = bound), the checker runs to exhaustion, and the explored
//! set - hence `unique_state_count()` - is the same on every run.
//!
//! Oracle note: I1/I2 deliberately use jiff's own `to_offset`/`to_datetime`
//! (C03 decides whether those are right); C13 decides whether the cached
//! components of a `Zoned` can ever disagree with them.

#[path = "../../vf/src/guard.rs"]
#[allow(dead_code)]
mod guard;
#[path = "../../vf/src/report.rs"]
#[allow(dead_code)]
mod report;

use guard::{guard, panic_sig};
use jiff::civil::Weekday;
use jiff::tz::{Disambiguation, Offset, OffsetConflict, TimeZone};
use jiff::{RoundMode, Span, Timestamp, Unit, Zoned, ZonedRound};
use refmodel::{cal, tz as rtz};
use report::Report;
use serde_json::json;
use stateright::{Checker, Model, Property};
use std::collections::HashMap;
use std::hash::{Hash, Hasher};
use std::sync::atomic::{AtomicU64, Ordering::Relaxed};
use std::sync::{Arc, Mutex};

const NS: i128 = 1_000_000_000;
const SYS: &str = "/usr/share/zoneinfo";

#[derive(Clone, Debug, PartialEq, Eq, Hash)]
struct St {
    ns: i128,
    zone: u8,
    depth: u8,
}

#[derive(Clone, Debug)]
enum Op {
    Add(Span),
    Sub(Span),
    Round(Unit, i64, RoundMode),
    WithHour(i8),
    WithMinute(i8),
    WithDay(i8),
    WithMonth(i8),
    WithNanosecond(i16),
    WithSubsec(i32),
    /// with().hour(h).disambiguation(d)
    WithHourDisamb(i8, Disambiguation),
    /// with().offset(current + delta seconds).offset_conflict(c)
    WithOffset(i32, OffsetConflict),
    StartOfDay,
    EndOfDay,
    Tomorrow,
    Yesterday,
    FirstOfMonth,
    LastOfMonth,
    FirstOfYear,
    LastOfYear,
    NthWeekday(i32, Weekday),
    WithTimeZone(u8),
    InTz(u8),
    /// z.datetime().to_zoned(tz)
    DateTimeToZoned,
    /// tz.to_ambiguous_zoned(z.datetime()).disambiguate(d)
    Ambiguous(Disambiguation),
    /// z.to_string().parse::<Zoned>()
    PrintParse,
    /// z.timestamp().to_zoned(tz)
    TimestampToZoned,
    /// r = epoch_in_zone.until((largest, z)); epoch_in_zone.checked_add(r)
    UntilAdd(Unit),
}

struct Act {
    name: String,
    op: Op,
}

struct Zn {
    name: String,
    tz: TimeZone,
    /// name usable with `in_tz`, if any
    iana: Option<String>,
}

const SHARDS: usize = 64;

struct Shared {
    r: Arc<Report>,
    zones: Vec<Zn>,
    acts: Vec<Act>,
    bound: u8,
    transitions: AtomicU64,
    no_successor: AtomicU64,
    produced: AtomicU64,
    violating_values: AtomicU64,
    /// (instant, zone) -> minimal depth at which it was produced
    values: Vec<Mutex<HashMap<(i128, u8), u8>>>,
    per_action_ok: Vec<AtomicU64>,
    per_action_err: Vec<AtomicU64>,
}

impl Shared {
    fn record_value(&self, ns: i128, zone: u8, depth: u8) {
        let mut h = std::collections::hash_map::DefaultHasher::new();
        (ns, zone).hash(&mut h);
        let mut m = self.values[(h.finish() as usize) % SHARDS].lock().unwrap();
        let e = m.entry((ns, zone)).or_insert(depth);
        if depth < *e {
            *e = depth;
        }
    }

    fn case(&self, ns: i128, zone: u8, act: &Act) -> String {
        format!("zone={} ts={} action={}", self.zones[zone as usize].name, ns, act.name)
    }

    /// Execute the real operation. Ok(None) = the operation returned Err
    /// (no successor); Ok(Some((value, expected zone, keeps instant))).
    fn exec(&self, z: &Zoned, zone: u8, op: &Op) -> Result<Option<(Zoned, u8, bool)>, String> {
        let tz = &self.zones[zone as usize].tz;
        let same = |v: Result<Zoned, jiff::Error>| v.ok().map(|v| (v, zone, false));
        guard(|| match op {
            Op::Add(s) => same(z.checked_add(*s)),
            Op::Sub(s) => same(z.checked_sub(*s)),
            Op::Round(u, inc, m) => same(z.round(ZonedRound::new().smallest(*u).increment(*inc).mode(*m))),
            Op::WithHour(v) => same(z.with().hour(*v).build()),
            Op::WithMinute(v) => same(z.with().minute(*v).build()),
            Op::WithDay(v) => same(z.with().day(*v).build()),
            Op::WithMonth(v) => same(z.with().month(*v).build()),
            Op::WithNanosecond(v) => same(z.with().nanosecond(*v).build()),
            Op::WithSubsec(v) => same(z.with().subsec_nanosecond(*v).build()),
            Op::WithHourDisamb(h, d) => same(z.with().hour(*h).disambiguation(*d).build()),
            Op::WithOffset(delta, c) => match Offset::from_seconds(z.offset().seconds() + delta) {
                Ok(o) => same(z.with().offset(o).offset_conflict(*c).build()),
                Err(_) => None,
            },
            Op::StartOfDay => same(z.start_of_day()),
            Op::EndOfDay => same(z.end_of_day()),
            Op::Tomorrow => same(z.tomorrow()),
            Op::Yesterday => same(z.yesterday()),
            Op::FirstOfMonth => same(z.first_of_month()),
            Op::LastOfMonth => same(z.last_of_month()),
            Op::FirstOfYear => same(z.first_of_year()),
            Op::LastOfYear => same(z.last_of_year()),
            Op::NthWeekday(n, w) => same(z.nth_weekday(*n, *w)),
            Op::WithTimeZone(t) => Some((z.with_time_zone(self.zones[*t as usize].tz.clone()), *t, true)),
            Op::InTz(t) => z.in_tz(self.zones[*t as usize].iana.as_deref().unwrap()).ok().map(|v| (v, *t, true)),
            Op::DateTimeToZoned => same(z.datetime().to_zoned(tz.clone())),
            Op::Ambiguous(d) => same(tz.to_ambiguous_zoned(z.datetime()).disambiguate(*d)),
            // a POSIX zone has neither an IANA name nor a fixed offset: its
            // printed form carries only the offset (not a claim of C09/C13)
            Op::PrintParse if self.zones[zone as usize].name.starts_with("posix(") => None,
            Op::PrintParse => same(z.to_string().parse::<Zoned>()),
            Op::TimestampToZoned => Some((z.timestamp().to_zoned(tz.clone()), zone, false)),
            Op::UntilAdd(u) => {
                let base = Zoned::new(Timestamp::UNIX_EPOCH, tz.clone());
                match base.until((*u, z)) {
                    Ok(span) => same(base.checked_add(span)),
                    Err(_) => None,
                }
            }
        })
    }

    /// The invariant on a produced value. Returns false if it is violated.
    fn invariant(&self, v: &Zoned, from_ns: i128, from_zone: u8, act: &Act, want_zone: u8, keeps_instant: bool) -> bool {
        let sec = "bfs";
        let case = || self.case(from_ns, from_zone, act);
        let res = guard(|| {
            let mut bad: Vec<(&'static str, String)> = vec![];
            let ts = v.timestamp();
            let want_off = v.time_zone().to_offset(ts);
            if v.offset() != want_off {
                bad.push(("offset-mismatch", format!("offset() = {:?} but time_zone().to_offset(timestamp()) = {:?}; value {:?}", v.offset(), want_off, v)));
            }
            let want_dt = v.offset().to_datetime(ts);
            if v.datetime() != want_dt {
                bad.push(("datetime-mismatch", format!("datetime() = {} but offset().to_datetime(timestamp()) = {}; offset {:?} ts {}", v.datetime(), want_dt, v.offset(), ts.as_nanosecond())));
            }
            if v.time_zone() != &self.zones[want_zone as usize].tz {
                bad.push(("zone-unexpected", format!("zone is {:?}, expected {}", v.time_zone(), self.zones[want_zone as usize].name)));
            }
            if keeps_instant && ts.as_nanosecond() != from_ns {
                bad.push(("instant-changed", format!("instant {} -> {}", from_ns, ts.as_nanosecond())));
            }
            // Eq / Ord / Hash depend on the instant only
            let other = (want_zone as usize + 1) % self.zones.len();
            let w = Zoned::new(ts, self.zones[other].tz.clone());
            let hash = |z: &Zoned| {
                let mut h = std::collections::hash_map::DefaultHasher::new();
                z.hash(&mut h);
                h.finish()
            };
            if !(v == &w) || v.cmp(&w) != std::cmp::Ordering::Equal || v.partial_cmp(&w) != Some(std::cmp::Ordering::Equal) || hash(v) != hash(&w) {
                bad.push((
                    "eq-ord-hash",
                    format!("same instant in {}: == {} cmp {:?} hash equal {}", self.zones[other].name, v == &w, v.cmp(&w), hash(v) == hash(&w)),
                ));
            }
            // field-for-field equal to the canonical reconstruction (what the
            // canonicalisation argument relies on)
            let canon = Zoned::new(ts, self.zones[want_zone as usize].tz.clone());
            if bad.is_empty() && (canon.offset() != v.offset() || canon.datetime() != v.datetime()) {
                bad.push(("differs-from-Zoned::new", format!("Zoned::new gives {:?}, value is {:?}", canon, v)));
            }
            bad
        });
        match res {
            Err(p) => {
                self.r.viol(sec, &format!("{}/invariant-{}", act.name, panic_sig(&p)), case(), p);
                false
            }
            Ok(bad) => {
                for (class, detail) in &bad {
                    self.r.viol(sec, &format!("{}/{}", act.name, class), case(), detail.clone());
                }
                bad.is_empty()
            }
        }
    }

    /// One transition: rebuild the value, run the operation, check the
    /// invariant, canonicalise.
    fn step(&self, ns: i128, zone: u8, depth: u8, ai: usize) -> Option<St> {
        let act = &self.acts[ai];
        let tz = &self.zones[zone as usize].tz;
        let z = Zoned::new(Timestamp::from_nanosecond(ns).expect("state instant in range"), tz.clone());
        self.transitions.fetch_add(1, Relaxed);
        match self.exec(&z, zone, &act.op) {
            Err(p) => {
                self.r.viol("bfs", &format!("{}/{}", act.name, panic_sig(&p)), self.case(ns, zone, act), p);
                self.no_successor.fetch_add(1, Relaxed);
                None
            }
            Ok(None) => {
                self.no_successor.fetch_add(1, Relaxed);
                self.per_action_err[ai].fetch_add(1, Relaxed);
                None
            }
            Ok(Some((v, want_zone, keeps))) => {
                self.produced.fetch_add(1, Relaxed);
                self.per_action_ok[ai].fetch_add(1, Relaxed);
                if !self.invariant(&v, ns, zone, act, want_zone, keeps) {
                    self.violating_values.fetch_add(1, Relaxed);
                    return None;
                }
                let out = v.timestamp().as_nanosecond();
                self.record_value(out, want_zone, depth + 1);
                Some(St { ns: out, zone: want_zone, depth: depth + 1 })
            }
        }
    }
}

struct ZModel {
    sh: Arc<Shared>,
    init: Vec<St>,
}

impl Model for ZModel {
    type State = St;
    type Action = u16;

    fn init_states(&self) -> Vec<St> {
        self.init.clone()
    }

    fn actions(&self, s: &St, out: &mut Vec<u16>) {
        if s.depth < self.sh.bound {
            out.extend(0..self.sh.acts.len() as u16);
        }
    }

    fn next_state(&self, s: &St, a: u16) -> Option<St> {
        self.sh.step(s.ns, s.zone, s.depth, a as usize)
    }

    fn properties(&self) -> Vec<Property<Self>> {
        // Violations are recorded through `Report` from inside `next_state`
        // (the invariant is on the produced value, not on the canonical
        // state). This property never fails, so that the checker explores the
        // whole bounded space instead of stopping at the first discovery.
        vec![Property::always("explore the whole bounded space", |_, _| true)]
    }
}

fn build_actions(zones: &[Zn], core_only: bool) -> Vec<Act> {
    let mut v: Vec<Act> = vec![];
    let mut push = |name: String, op: Op| v.push(Act { name, op });
    let sp = Span::new();
    let spans: Vec<(&str, Span)> = vec![
        ("1ns", sp.nanoseconds(1)),
        ("1h", sp.hours(1)),
        ("25h", sp.hours(25)),
        ("1d", sp.days(1)),
        ("1mo", sp.months(1)),
        ("1y", sp.years(1)),
        ("1mo1d1h", sp.months(1).days(1).hours(1)),
    ];
    for (n, s) in &spans {
        if core_only && !["1ns", "1h", "1d", "1mo"].contains(n) {
            continue;
        }
        push(format!("checked_add({})", n), Op::Add(*s));
        push(format!("checked_sub({})", n), Op::Sub(*s));
    }
    let rounds: Vec<(&str, Unit, i64)> = vec![("minute", Unit::Minute, 1), ("hour", Unit::Hour, 1), ("6hours", Unit::Hour, 6), ("day", Unit::Day, 1)];
    let modes = [("HalfExpand", RoundMode::HalfExpand), ("Floor", RoundMode::Floor), ("Ceil", RoundMode::Ceil)];
    for (n, u, inc) in &rounds {
        for (mn, m) in &modes {
            if core_only && !((*n == "hour" || *n == "day") && *mn == "HalfExpand") {
                continue;
            }
            push(format!("round({},{})", n, mn), Op::Round(*u, *inc, *m));
        }
    }
    if core_only {
        push("with.hour(2)".into(), Op::WithHour(2));
        push("with.day(31)".into(), Op::WithDay(31));
    } else {
        for h in [0i8, 2, 23] {
            push(format!("with.hour({})", h), Op::WithHour(h));
        }
        push("with.minute(30)".into(), Op::WithMinute(30));
        for d in [1i8, 31] {
            push(format!("with.day({})", d), Op::WithDay(d));
        }
        for m in [3i8, 11] {
            push(format!("with.month({})", m), Op::WithMonth(m));
        }
        push("with.nanosecond(0)".into(), Op::WithNanosecond(0));
        push("with.subsec_nanosecond(999999999)".into(), Op::WithSubsec(999_999_999));
        for (n, d) in [("earlier", Disambiguation::Earlier), ("later", Disambiguation::Later), ("reject", Disambiguation::Reject)] {
            push(format!("with.hour(1).disambiguation({})", n), Op::WithHourDisamb(1, d));
        }
        for (n, c) in [
            ("always_offset", OffsetConflict::AlwaysOffset),
            ("always_time_zone", OffsetConflict::AlwaysTimeZone),
            ("prefer_offset", OffsetConflict::PreferOffset),
            ("reject", OffsetConflict::Reject),
        ] {
            push(format!("with.offset(current+1h).offset_conflict({})", n), Op::WithOffset(3600, c));
        }
    }
    push("start_of_day".into(), Op::StartOfDay);
    push("end_of_day".into(), Op::EndOfDay);
    push("tomorrow".into(), Op::Tomorrow);
    push("yesterday".into(), Op::Yesterday);
    if !core_only {
        push("first_of_month".into(), Op::FirstOfMonth);
        push("last_of_month".into(), Op::LastOfMonth);
        push("first_of_year".into(), Op::FirstOfYear);
        push("last_of_year".into(), Op::LastOfYear);
        push("nth_weekday(1,Sunday)".into(), Op::NthWeekday(1, Weekday::Sunday));
        push("nth_weekday(-1,Sunday)".into(), Op::NthWeekday(-1, Weekday::Sunday));
    }
    // zone changes: the action "to zone t" is offered in every state; moving
    // to the zone one is already in is an identity transition.
    for (t, z) in zones.iter().enumerate() {
        if core_only && t >= 3 {
            break;
        }
        push(format!("with_time_zone({})", z.name), Op::WithTimeZone(t as u8));
        if z.iana.is_some() && !core_only {
            push(format!("in_tz({})", z.name), Op::InTz(t as u8));
        }
    }
    push("datetime().to_zoned(tz)".into(), Op::DateTimeToZoned);
    for (n, d) in [
        ("compatible", Disambiguation::Compatible),
        ("earlier", Disambiguation::Earlier),
        ("later", Disambiguation::Later),
        ("reject", Disambiguation::Reject),
    ] {
        if core_only && (n == "compatible" || n == "reject") {
            continue;
        }
        push(format!("tz.to_ambiguous_zoned(datetime()).{}", n), Op::Ambiguous(d));
    }
    push("to_string().parse()".into(), Op::PrintParse);
    if !core_only {
        push("timestamp().to_zoned(tz)".into(), Op::TimestampToZoned);
        push("epoch.until(z)+checked_add(largest=hour)".into(), Op::UntilAdd(Unit::Hour));
        push("epoch.until(z)+checked_add(largest=year)".into(), Op::UntilAdd(Unit::Year));
    }
    v
}

fn load_zones(names: &[&str]) -> Vec<Zn> {
    let mut v = vec![];
    for n in names {
        let tz = jiff::tz::db().get(n).unwrap_or_else(|e| panic!("zone {} not available from the system database: {}", n, e));
        v.push(Zn { name: n.to_string(), tz, iana: Some(n.to_string()) });
    }
    v.push(Zn { name: "fixed(+05:30)".into(), tz: TimeZone::fixed(Offset::from_seconds(19_800).unwrap()), iana: None });
    // a synthetic zone whose "summer" regime (+2) lasts only 30 real minutes:
    // a second transition lies within the first one's gap, which no IANA zone
    // offers (the situation in which a gap's `after` offset is not the offset
    // in force at the resolved instant)
    v.push(Zn { name: format!("posix({})", SHORT_REGIME), tz: TimeZone::posix(SHORT_REGIME).expect("posix zone"), iana: None });
    v
}

const SHORT_REGIME: &str = "XXX0YYY-2,J100/0,J100/2:30";

/// Initial instants of a zone: epoch, `k` transitions within 1900..2040 each at
/// -1 ns, 0, +1 h, and the range limits moved inward by three days.
fn init_instants(name: &str, k: usize) -> Vec<i128> {
    let ts_min = Timestamp::MIN.as_nanosecond();
    let ts_max = Timestamp::MAX.as_nanosecond();
    let mut v: Vec<i128> = vec![0, ts_min + 3 * 86_400 * NS, ts_max - 3 * 86_400 * NS];
    let model = if let Some(p) = name.strip_prefix("posix(").and_then(|x| x.strip_suffix(')')) {
        rtz::zone_from_posix(p.as_bytes()).ok()
    } else {
        std::fs::read(format!("{}/{}", SYS, name)).ok().and_then(|bytes| rtz::zone_from_tzif(&bytes).ok())
    };
    {
        if let Some(m) = model {
            let lo = cal::days_from_civil(1900, 1, 1) * 86_400;
            let hi = cal::days_from_civil(2040, 1, 1) * 86_400;
            let ch: Vec<i64> = m.changing().into_iter().map(|i| m.pieces[i].start).filter(|s| *s >= lo && *s < hi).collect();
            // k transitions spread evenly over the list, always including the
            // first and the last two
            let mut idx: Vec<usize> = vec![];
            if !ch.is_empty() {
                let n = ch.len();
                for j in 0..k.min(n) {
                    let i = if k <= 1 { 0 } else { j * (n - 1) / (k.min(n) - 1).max(1) };
                    if !idx.contains(&i) {
                        idx.push(i);
                    }
                }
                if n >= 2 && !idx.contains(&(n - 2)) {
                    idx.push(n - 2);
                }
            }
            for i in idx {
                let b = ch[i] as i128 * NS;
                v.extend([b - 1, b, b + 3_600 * NS]);
            }
        }
    }
    v
}

struct RunStats {
    unique_states: u64,
    unique_values: u64,
    per_depth: Vec<u64>,
    max_depth: usize,
    wall: f64,
}

fn run_bfs(r: &Arc<Report>, label: &str, zone_names: &[&str], k: usize, bound: u8, core_only: bool, cap_states: usize, timeout_s: u64) -> RunStats {
    let zones = load_zones(zone_names);
    let acts = build_actions(&zones, core_only);
    let nacts = acts.len();
    let mut init: Vec<St> = vec![];
    for (zi, z) in zones.iter().enumerate() {
        for ns in init_instants(&z.name, k) {
            init.push(St { ns, zone: zi as u8, depth: 0 });
        }
    }
    let sh = Arc::new(Shared {
        r: r.clone(),
        zones,
        acts,
        bound,
        transitions: AtomicU64::new(0),
        no_successor: AtomicU64::new(0),
        produced: AtomicU64::new(0),
        violating_values: AtomicU64::new(0),
        values: (0..SHARDS).map(|_| Mutex::new(HashMap::new())).collect(),
        per_action_ok: (0..nacts).map(|_| AtomicU64::new(0)).collect(),
        per_action_err: (0..nacts).map(|_| AtomicU64::new(0)).collect(),
    });
    // the initial values are themselves checked (constructed with Zoned::new)
    let init_act = Act { name: "Zoned::new".into(), op: Op::TimestampToZoned };
    for s in &init {
        let z = Zoned::new(Timestamp::from_nanosecond(s.ns).unwrap(), sh.zones[s.zone as usize].tz.clone());
        sh.invariant(&z, s.ns, s.zone, &init_act, s.zone, true);
        sh.record_value(s.ns, s.zone, 0);
    }
    let n_init = init.len();
    let t0 = std::time::Instant::now();
    let model = ZModel { sh: sh.clone(), init };
    let threads = std::thread::available_parallelism().map(|n| n.get()).unwrap_or(16).min(16);
    let checker = model
        .checker()
        .threads(threads)
        .target_state_count(cap_states)
        .timeout(std::time::Duration::from_secs(timeout_s))
        .spawn_bfs()
        .join();
    let wall = t0.elapsed().as_secs_f64();
    let unique_states = checker.unique_state_count() as u64;
    let max_depth = checker.max_depth();
    let discoveries = checker.discoveries().len();
    drop(checker);

    let sh = Arc::try_unwrap(sh).ok().expect("checker released the model");
    let mut per_depth = vec![0u64; bound as usize + 1];
    let mut unique_values = 0u64;
    for m in &sh.values {
        for (_, d) in m.lock().unwrap().iter() {
            per_depth[*d as usize] += 1;
            unique_values += 1;
        }
    }
    let tr = sh.transitions.load(Relaxed);
    r.add_states(unique_states);
    r.add_transitions(tr);
    r.add_validated(sh.produced.load(Relaxed));
    r.count(&format!("{}:initial_states", label), n_init as u64);
    r.count(&format!("{}:zones", label), sh.zones.len() as u64);
    r.count(&format!("{}:actions", label), nacts as u64);
    r.count(&format!("{}:depth_bound", label), bound as u64);
    r.count(&format!("{}:unique_states(instant,zone,depth)", label), unique_states);
    r.count(&format!("{}:unique_values(instant,zone)", label), unique_values);
    r.count(&format!("{}:transitions", label), tr);
    r.count(&format!("{}:operations_returning_err(no successor)", label), sh.no_successor.load(Relaxed));
    r.count(&format!("{}:values_invariant_checked", label), sh.produced.load(Relaxed));
    r.count(&format!("{}:values_violating(not expanded)", label), sh.violating_values.load(Relaxed));
    r.count(&format!("{}:checker_max_depth(stateright counts the initial level as 1)", label), max_depth as u64);
    for (d, n) in per_depth.iter().enumerate() {
        r.count(&format!("{}:new_values_first_reached_at_depth_{}", label, d), *n);
    }
    let never_ok: Vec<&str> = sh.acts.iter().enumerate().filter(|(i, _)| sh.per_action_ok[*i].load(Relaxed) == 0).map(|(_, a)| a.name.as_str()).collect();
    r.count(&format!("{}:actions_that_never_succeeded", label), never_ok.len() as u64);
    if !never_ok.is_empty() {
        r.note(format!("{}: actions that never produced a value: {}", label, never_ok.join(", ")));
    }
    let mut fam: std::collections::BTreeMap<String, (u64, u64)> = Default::default();
    for (i, a) in sh.acts.iter().enumerate() {
        let f = a.name.split(|c: char| c == '(' || c == '.').next().unwrap_or("").to_string();
        let e = fam.entry(f).or_insert((0, 0));
        e.0 += sh.per_action_ok[i].load(Relaxed);
        e.1 += sh.per_action_err[i].load(Relaxed);
    }
    for (f, (ok, err)) in fam {
        r.outcome(&format!("{}:{}:ok", label, f), ok);
        r.outcome(&format!("{}:{}:err", label, f), err);
    }
    let never_err = sh.acts.iter().enumerate().filter(|(i, _)| sh.per_action_err[*i].load(Relaxed) == 0).count();
    r.count(&format!("{}:actions_that_never_failed", label), never_err as u64);
    r.require(never_ok.is_empty(), "every action produced a value somewhere");
    r.require(discoveries == 0, "the exploration property has no discovery");
    let capped_states = unique_states as usize >= cap_states;
    let capped_time = wall >= timeout_s as f64;
    if capped_states {
        r.cap(format!("{}: state cap {} reached - the bounded space was NOT exhausted", label, cap_states));
    }
    if capped_time {
        r.cap(format!("{}: timeout {} s reached - the bounded space was NOT exhausted", label, timeout_s));
    }
    let exhausted = !capped_states && !capped_time;
    r.count(&format!("{}:frontier_exhausted_within_bound", label), exhausted as u64);
    let fix = exhausted && per_depth[bound as usize] == 0;
    r.count(&format!("{}:fix_point_reached", label), fix as u64);
    r.sample(json!({
        "run": label, "zones": sh.zones.iter().map(|z| z.name.clone()).collect::<Vec<_>>(),
        "actions": sh.acts.iter().map(|a| a.name.clone()).collect::<Vec<_>>(),
        "depth_bound": bound, "initial_states": n_init, "unique_states": unique_states, "unique_values": unique_values,
        "transitions": tr, "new_values_per_depth": per_depth, "wall_s": wall, "exhausted": exhausted,
    }));
    eprintln!(
        "[C13] {}: init {} zones {} actions {} bound {} -> states {} values {} transitions {} in {:.1}s (exhausted: {})",
        label, n_init, sh.zones.len(), nacts, bound, unique_states, unique_values, tr, wall, exhausted
    );
    RunStats { unique_states, unique_values, per_depth, max_depth, wall }
}

const QUICK_ZONES: &[&str] =
    &["America/New_York", "Europe/London", "Australia/Lord_Howe", "Africa/Monrovia", "Pacific/Apia", "America/Sao_Paulo", "UTC"];
const REP: &[&str] = &[
    "America/New_York",
    "Europe/London",
    "Europe/Dublin",
    "Europe/Berlin",
    "Australia/Lord_Howe",
    "Pacific/Apia",
    "Pacific/Kiritimati",
    "Africa/Monrovia",
    "Asia/Kathmandu",
    "America/St_Johns",
    "Antarctica/Troll",
    "Africa/Casablanca",
    "America/Sao_Paulo",
    "Asia/Tehran",
    "America/Caracas",
    "Pacific/Honolulu",
    "Australia/Sydney",
    "UTC",
];

/// Replay of one transition: `zone=<name> ts=<ns> action=<name>`.
fn replay(r: Arc<Report>, case: &str) -> ! {
    let get = |key: &str| -> Option<String> {
        let i = case.find(key)? + key.len();
        let rest = &case[i..];
        Some(match key {
            "action=" => rest.to_string(),
            _ => rest.split(' ').next().unwrap_or("").to_string(),
        })
    };
    let (Some(zone), Some(ts), Some(action)) = (get("zone="), get("ts="), get("action=")) else {
        eprintln!("cannot parse case {:?}", case);
        std::process::exit(2);
    };
    let thorough = r.thorough();
    let zones = load_zones(if thorough { REP } else { QUICK_ZONES });
    let acts = build_actions(&zones, false);
    let nacts = acts.len();
    let sh = Shared {
        r: r.clone(),
        zones,
        acts,
        bound: 1,
        transitions: AtomicU64::new(0),
        no_successor: AtomicU64::new(0),
        produced: AtomicU64::new(0),
        violating_values: AtomicU64::new(0),
        values: (0..SHARDS).map(|_| Mutex::new(HashMap::new())).collect(),
        per_action_ok: (0..nacts).map(|_| AtomicU64::new(0)).collect(),
        per_action_err: (0..nacts).map(|_| AtomicU64::new(0)).collect(),
    };
    let zi = sh.zones.iter().position(|z| z.name == zone);
    let ai = sh.acts.iter().position(|a| a.name == action);
    let ns: Option<i128> = ts.parse().ok();
    match (zi, ai, ns) {
        (Some(zi), Some(ai), Some(ns)) => {
            let z = Zoned::new(Timestamp::from_nanosecond(ns).unwrap(), sh.zones[zi].tz.clone());
            println!("state: {:?}", z);
            match sh.exec(&z, zi as u8, &sh.acts[ai].op) {
                Ok(Some((v, _, _))) => println!("{} -> {:?}\n  timestamp {} offset {:?} datetime {} | to_offset {:?} to_datetime {}", action, v, v.timestamp().as_nanosecond(), v.offset(), v.datetime(), v.time_zone().to_offset(v.timestamp()), v.offset().to_datetime(v.timestamp())),
                Ok(None) => println!("{} -> Err (no successor)", action),
                Err(p) => println!("{} -> PANIC {}", action, p),
            }
            sh.step(ns, zi as u8, 0, ai);
        }
        _ => {
            eprintln!("unknown zone/action/instant in case {:?} (tier {})", case, if thorough { "thorough" } else { "quick" });
        }
    }
    drop(sh);
    finish(r)
}

fn finish(r: Arc<Report>) -> ! {
    match Arc::try_unwrap(r) {
        Ok(r) => r.finish(),
        Err(_) => panic!("report still shared"),
    }
}

/// development knob: C13_K overrides the number of transitions per zone
fn envk(default: usize) -> usize {
    std::env::var("C13_K").ok().and_then(|v| v.parse().ok()).unwrap_or(default)
}

fn main() {
    let r = Arc::new(Report::from_args("C13"));
    if let Some(case) = r.only_case.clone() {
        replay(r, &case);
    }
    if r.quick() {
        // depth 3, seven named zones + a fixed offset, full action set
        r.section("bfs", || {
            let st = run_bfs(&r, "quick", QUICK_ZONES, envk(30), 3, false, 120_000_000, 100);
            r.require(st.unique_values > 10_000 && st.per_depth[3] > 0, "the search reached depth 3 with > 10^4 distinct values");
            let _ = (st.unique_states, st.max_depth, st.wall);
        });
    } else {
        // (a) wide: every representative zone, full action set, depth 3
        r.section("bfs-wide", || {
            let a = run_bfs(&r, "wide", REP, envk(40), 3, false, 400_000_000, 1500);
            r.require(a.per_depth[3] > 0, "the wide search reached its depth bound");
        });
        // (b) deep, full action set: the quick zones, depth 4
        r.section("bfs-deep4", || {
            let b = run_bfs(&r, "deep4", QUICK_ZONES, envk(4), 4, false, 400_000_000, 1500);
            r.require(b.per_depth[4] > 0, "the depth-4 search reached its depth bound");
        });
        // (c) deeper, core action subset: the quick zones, depth 7
        r.section("bfs-deep7-core", || {
            let b = run_bfs(&r, "deep7-core", QUICK_ZONES, envk(4), 7, true, 400_000_000, 1500);
            r.require(b.per_depth[7] > 0, "the depth-7 search reached its depth bound");
        });
    }
    finish(r)
}
