//! C13: every Zoned value is internally consistent with its time zone.
//!
//! E2: explicit-state breadth-first search over operation histories with
//! `stateright`. Every transition EXECUTES THE REAL jiff OPERATION on a real
//! `Zoned` (rebuilt from the canonical state with `Zoned::new(instant, zone)`),
//! and the invariant is evaluated on every produced value BEFORE it is
//! canonicalised to `(instant, zone)`:
//!
//!   I1  z.offset()   == z.time_zone().to_offset(z.timestamp())
//!   I2  z.datetime() == z.offset().to_datetime(z.timestamp())
//!   I3  the zone is the expected one (with_time_zone / in_tz -> the target
//!       zone, every other operation -> unchanged)
//!   I4  with_time_zone / in_tz keep the instant exactly
//!   I5  ==, cmp and Hash depend on the instant only (compared with
//!       `Zoned::new(same instant, another zone of the run)`)
//!
//! A violated invariant is a property violation (recorded through `Report`)
//! and that value is NOT expanded. Canonicalisation is sound because, when
//! I1-I3 hold, the produced value is field-for-field equal to
//! `Zoned::new(instant, zone)` (DESIGN.md section 3 / C13).
//!
//! State = (instant ns, zone index, depth). The depth is part of the state on
//! purpose: stateright's multi-threaded BFS is not level-synchronous, so its
//! own `target_max_depth` cut-off would make the explored set depend on thread
//! timing (a value first reached through a longer path would never be
//! expanded). With the depth in the state the model itself is finite (no
//! actions at depth = bound), the checker runs to exhaustion, and the explored
//! set - hence `unique_state_count()` - is the same on every run.
//!
//! Oracle note: I1/I2 deliberately use jiff's own `to_offset`/`to_datetime`
//! (C03 decides whether those are right); C13 decides whether the cached
//! components of a `Zoned` can ever disagree with them.
//!
//! Coverage extension (round 3). Three things were added:
//!
//! * I2m/I2a: the civil datetime is ALSO recomputed with the reference model
//!   (`refmodel::cal`, i128 arithmetic: instant + offset seconds), and every
//!   civil accessor of `Zoned` (year .. subsec_nanosecond, weekday,
//!   day_of_year, day_of_year_no_leap, era_year, days_in_month, days_in_year,
//!   in_leap_year, date, time, iso_week_date) is compared with the model.
//!   I5 additionally compares each produced value with the state it was
//!   produced from and with the instants 1 ns before/after it in another zone
//!   (different instants must be ordered as the instants, whatever the civil
//!   readings are); I7: `clone()` is field-for-field identical.
//! * PROBES: non-expanding actions. A probe executes a real jiff operation on
//!   the state and checks the invariant on the produced value exactly like an
//!   expanding action, but the produced value is not added to the state
//!   space (so the number of probes costs linearly, not to the power of the
//!   depth). Light probes (`L`) are offered in every expanded state up to a
//!   declared depth, the heavy text-parsing probes (`H`) up to a smaller
//!   declared depth. They cover every public producer of a `Zoned` that the
//!   expanding alphabet does not: SignedDuration / std Duration arithmetic,
//!   saturating arithmetic, the operators, `nth_weekday_of_month`, further
//!   rounding units/modes, every `ZonedWith` setter, `TimeZone::to_zoned`,
//!   `AmbiguousZoned::{compatible,earlier,later,unambiguous}`,
//!   `into_ambiguous_zoned`, `DateTime::in_tz`, `Date::{to_zoned,in_tz}`,
//!   `Timestamp::in_tz`, `clone`, `TryFrom<SystemTime>`, and the parsers
//!   (`DateTimeParser::parse_zoned` with every OffsetConflict x
//!   Disambiguation on text whose offset is right / wrong / absent / `Z`,
//!   `Zoned::strptime` with `%Q` / `%:z`, `rfc2822::parse`). Producers that
//!   take a civil datetime are fed the state's civil datetime shifted by
//!   0, +1 h, -1 h and +30 min, so that civil times inside gaps (which no
//!   `Zoned` can display) reach them. The probes of the depth-0 states are run
//!   by `run_bfs` itself (in parallel, before the checker starts), those of
//!   deeper states are ordinary `Model::actions` whose `next_state` is `None`.
//!   A probe's signature is `<probe name without the civil shift>/<failure
//!   class>[:civil-unambiguous|:civil-in-gap|:civil-in-fold]`.
//!   Tiers: quick = L and H in depths 0..=1; thorough/wide = L in 0..=2 (0..=1
//!   in the debug-assertion build), H in 0..=1; thorough/deep4 = L in 0..=2, H
//!   in 0..=1; deep7-core = no probes.
//!   Excluded (and counted): an operator (`+`, `-`, `+=`, `-=`) panic when the
//!   checked twin returns an error (documented); parsing probes for the
//!   POSIX zone (it cannot be written down); `Zoned::now` (clock).
//!   Not covered: serde `Deserialize` (feature not enabled in this crate; it
//!   calls the default `DateTimeParser::parse_zoned`).
//! * start values: `Timestamp::MIN`, `Timestamp::MAX` and the zone's first
//!   offset change (LMT -> standard time, sub-minute offsets) were added; and,
//!   entered at depth 1, each chosen transition -24 h -+ 15 min and +24 h -+ 15
//!   min (the neighbouring days at a clock time inside the gap / fold).

#[path = "../../vf/src/guard.rs"]
#[allow(dead_code)]
mod guard;
#[path = "../../vf/src/report.rs"]
#[allow(dead_code)]
mod report;

use guard::{guard, panic_sig};
use jiff::civil::{Date, DateTime, Era, Time, Weekday};
use jiff::fmt::temporal::DateTimeParser;
use jiff::tz::{AmbiguousOffset, Disambiguation, Offset, OffsetConflict, TimeZone};
use jiff::{RoundMode, SignedDuration, Span, Timestamp, Unit, Zoned, ZonedRound};
use std::time::Duration as StdDuration;
use refmodel::{cal, tz as rtz};
use report::Report;
use serde_json::json;
use stateright::{Checker, Model, Property};
use std::collections::HashMap;
use std::hash::{Hash, Hasher};
use std::sync::atomic::{AtomicU64, Ordering::Relaxed};
use std::sync::{Arc, Mutex};

const NS: i128 = 1_000_000_000;
const SYS: &str = "/usr/share/zoneinfo";

#[derive(Clone, Debug, PartialEq, Eq, Hash)]
struct St {
    ns: i128,
    zone: u8,
    depth: u8,
}

#[derive(Clone, Debug)]
enum Op {
    Add(Span),
    Sub(Span),
    Round(Unit, i64, RoundMode),
    WithHour(i8),
    WithMinute(i8),
    WithDay(i8),
    WithMonth(i8),
    WithNanosecond(i16),
    WithSubsec(i32),
    /// with().hour(h).disambiguation(d)
    WithHourDisamb(i8, Disambiguation),
    /// with().offset(current + delta seconds).offset_conflict(c)
    WithOffset(i32, OffsetConflict),
    StartOfDay,
    EndOfDay,
    Tomorrow,
    Yesterday,
    FirstOfMonth,
    LastOfMonth,
    FirstOfYear,
    LastOfYear,
    NthWeekday(i32, Weekday),
    WithTimeZone(u8),
    InTz(u8),
    /// z.datetime().to_zoned(tz)
    DateTimeToZoned,
    /// tz.to_ambiguous_zoned(z.datetime()).disambiguate(d)
    Ambiguous(Disambiguation),
    /// z.to_string().parse::<Zoned>()
    PrintParse,
    /// z.timestamp().to_zoned(tz)
    TimestampToZoned,
    /// r = epoch_in_zone.until((largest, z)); epoch_in_zone.checked_add(r)
    UntilAdd(Unit),
    // ---- probes (non-expanding) -------------------------------------------
    /// checked_add / checked_sub with a SignedDuration or a std Duration
    Checked(bool, Arith),
    /// saturating_add / saturating_sub
    Saturating(bool, Arith),
    /// `&z + a`, `&z - a`, `z += a`, `z -= a` (documented to panic on overflow)
    Operator(Oper, Arith),
    NthWeekdayOfMonth(i8, Weekday),
    /// z.round(unit) through `From<Unit>`
    RoundUnit(Unit),
    /// z.round((unit, increment)) through `From<(Unit, i64)>`
    RoundUnitInc(Unit, i64),
    WithDate(DateSel),
    WithTime(Time),
    WithYear(YearSel),
    WithEraYear(i16, Era),
    WithDayOfYear(i16),
    WithDayOfYearNoLeap(i16),
    WithSecond(i8),
    WithMillisecond(i16),
    WithMicrosecond(i16),
    /// with().hour(h).offset_conflict(c): the conflict is with the ORIGINAL offset
    WithHourConflict(i8, OffsetConflict),
    /// with().hour(h).minute(m).offset(current + delta).offset_conflict(c).disambiguation(d)
    WithAll(i8, i8, i32, OffsetConflict, Disambiguation),
    /// with().build()
    WithNothing,
    /// a producer that takes a civil datetime, fed datetime() + shift seconds
    Civil(i64, CivilProd),
    /// z.timestamp().in_tz(name)
    TimestampInTz,
    /// Zoned::new(z.timestamp(), tz)
    ZonedNew,
    Clone,
    /// Zoned::try_from(SystemTime::from(z.timestamp())) (zone = TimeZone::system())
    FromSystemTime,
    /// DateTimeParser::new().offset_conflict(c).disambiguation(d).parse_zoned(text)
    /// with text = (datetime() + shift) ++ offset text ++ [zone]
    ParseTemporal(i64, OffText, OffsetConflict, Disambiguation),
    /// Zoned::strptime on text built from datetime() + shift
    Strptime(i64, StrpKind),
    /// rfc2822::to_string(z) -> rfc2822::parse (false) / DateTimeParser::parse_zoned (true)
    Rfc2822(bool),
}

#[derive(Clone, Copy, Debug)]
enum Arith {
    Sp(Span),
    Sd(SignedDuration),
    Ud(StdDuration),
}

#[derive(Clone, Copy, Debug, PartialEq)]
enum Oper {
    Add,
    Sub,
    AddAssign,
    SubAssign,
}

#[derive(Clone, Copy, Debug)]
enum DateSel {
    Fixed(i16, i8, i8),
    Tomorrow,
}

#[derive(Clone, Copy, Debug)]
enum YearSel {
    Fixed(i16),
    Previous,
}

#[derive(Clone, Copy, Debug)]
enum CivilProd {
    DateTimeToZoned,
    DateTimeInTz,
    TzToZoned,
    Compatible,
    Earlier,
    Later,
    Unambiguous,
    IntoAmbiguous(Disambiguation),
    DateToZoned,
    DateInTz,
}

#[derive(Clone, Copy, Debug)]
enum OffText {
    /// no offset in the text
    Absent,
    /// `Z`
    Zulu,
    /// the state's offset + delta seconds, printed exactly (`+hh:mm[:ss]`)
    Cur(i32),
}

#[derive(Clone, Copy, Debug)]
enum StrpKind {
    /// `%Q` only (IANA name)
    Q,
    /// `%:z %Q` with offset = current + delta
    ZQ(i32),
    /// `%:z` only -> a fixed-offset zone
    Z(i32),
}

/// The zone a produced value must be in.
#[derive(Clone, Debug)]
enum WantZone {
    /// zone of the run, by index
    Idx(u8),
    Fixed(Offset),
    System,
}

struct Out {
    v: Zoned,
    zone: WantZone,
    keeps_instant: bool,
    /// input-derived class appended to the failure class of a signature:
    /// the ambiguity class of the civil datetime handed to the producer
    input_class: &'static str,
}

struct Act {
    name: String,
    /// the signature prefix: the name for the expanding actions; for probes
    /// the name without the civil shift (an input class, not an operation)
    sig: String,
    op: Op,
    /// `None`: an expanding action. `Some(d)`: a probe, offered in states of
    /// depth <= d; its value is invariant-checked but not added to the space.
    probe: Option<u8>,
}

struct Zn {
    name: String,
    tz: TimeZone,
    /// name usable with `in_tz`, if any
    iana: Option<String>,
}

const SHARDS: usize = 64;

/// A counter sharded by thread (one cache line per slot): the run-wide
/// counters are touched on every transition by 16 threads.
#[repr(align(128))]
struct Slot(AtomicU64);
struct Ctr(Vec<Slot>);
const CTR_SLOTS: usize = 64;
thread_local! {
    static CTR_SLOT: usize = {
        let mut h = std::collections::hash_map::DefaultHasher::new();
        std::thread::current().id().hash(&mut h);
        (h.finish() as usize) % CTR_SLOTS
    };
}
impl Ctr {
    fn new() -> Ctr {
        Ctr((0..CTR_SLOTS).map(|_| Slot(AtomicU64::new(0))).collect())
    }
    #[inline]
    fn fetch_add(&self, n: u64, o: std::sync::atomic::Ordering) {
        self.0[CTR_SLOT.with(|s| *s)].0.fetch_add(n, o);
    }
    fn load(&self, o: std::sync::atomic::Ordering) -> u64 {
        self.0.iter().map(|s| s.0.load(o)).sum()
    }
}

struct Shared {
    r: Arc<Report>,
    zones: Vec<Zn>,
    acts: Vec<Act>,
    bound: u8,
    transitions: Ctr,
    no_successor: Ctr,
    produced: Ctr,
    violating_values: Ctr,
    /// (instant, zone) -> minimal depth at which it was produced
    values: Vec<Mutex<HashMap<(i128, u8), u8>>>,
    per_action_ok: Vec<AtomicU64>,
    per_action_err: Vec<AtomicU64>,
    /// produced values whose offset differs from the offset of the state they
    /// were produced from, per action (the cases in which a stale cached
    /// offset would be visible)
    per_action_offset_changed: Vec<AtomicU64>,
    /// `TimeZone::system()` as seen by this process (TZ is set by `main`)
    system_tz: TimeZone,
    probe_transitions: Ctr,
    /// civil inputs handed to the civil-datetime producers: unambiguous, gap, fold
    civil_inputs: [Ctr; 3],
    /// operator panics excluded because the checked twin returns an error
    operator_overflow_panics: Ctr,
    /// pairs (value, other value) on which ==, cmp, Hash were compared:
    /// [same instant, different instants]
    pairs: [Ctr; 2],
    accessor_fields_compared: Ctr,
}

fn arith_checked(z: &Zoned, add: bool, a: Arith) -> Result<Zoned, jiff::Error> {
    match (add, a) {
        (true, Arith::Sp(x)) => z.checked_add(x),
        (true, Arith::Sd(x)) => z.checked_add(x),
        (true, Arith::Ud(x)) => z.checked_add(x),
        (false, Arith::Sp(x)) => z.checked_sub(x),
        (false, Arith::Sd(x)) => z.checked_sub(x),
        (false, Arith::Ud(x)) => z.checked_sub(x),
    }
}

fn arith_saturating(z: &Zoned, add: bool, a: Arith) -> Zoned {
    match (add, a) {
        (true, Arith::Sp(x)) => z.saturating_add(x),
        (true, Arith::Sd(x)) => z.saturating_add(x),
        (true, Arith::Ud(x)) => z.saturating_add(x),
        (false, Arith::Sp(x)) => z.saturating_sub(x),
        (false, Arith::Sd(x)) => z.saturating_sub(x),
        (false, Arith::Ud(x)) => z.saturating_sub(x),
    }
}

fn arith_operator(z: &Zoned, o: Oper, a: Arith) -> Zoned {
    match (o, a) {
        (Oper::Add, Arith::Sp(x)) => z + x,
        (Oper::Add, Arith::Sd(x)) => z + x,
        (Oper::Add, Arith::Ud(x)) => z + x,
        (Oper::Sub, Arith::Sp(x)) => z - x,
        (Oper::Sub, Arith::Sd(x)) => z - x,
        (Oper::Sub, Arith::Ud(x)) => z - x,
        (Oper::AddAssign, a) => {
            let mut t = z.clone();
            match a {
                Arith::Sp(x) => t += x,
                Arith::Sd(x) => t += x,
                Arith::Ud(x) => t += x,
            }
            t
        }
        (Oper::SubAssign, a) => {
            let mut t = z.clone();
            match a {
                Arith::Sp(x) => t -= x,
                Arith::Sd(x) => t -= x,
                Arith::Ud(x) => t -= x,
            }
            t
        }
    }
}

/// `+hh:mm` or `+hh:mm:ss` (exact; never rounded)
fn offset_text(seconds: i32, colon: bool) -> String {
    let sign = if seconds < 0 { '-' } else { '+' };
    let a = seconds.unsigned_abs();
    let (h, m, sec) = (a / 3600, (a / 60) % 60, a % 60);
    match (colon, sec) {
        (true, 0) => format!("{}{:02}:{:02}", sign, h, m),
        (true, _) => format!("{}{:02}:{:02}:{:02}", sign, h, m, sec),
        (false, 0) => format!("{}{:02}{:02}", sign, h, m),
        (false, _) => format!("{}{:02}{:02}{:02}", sign, h, m, sec),
    }
}

/// The civil reading of `instant + offset` by the reference model.
struct Civil {
    epoch_day: i64,
    y: i64,
    m: i64,
    d: i64,
    hh: i64,
    mi: i64,
    ss: i64,
    sub: i64,
}

fn model_civil(ts_ns: i128, offset_s: i32) -> Civil {
    let local = ts_ns + offset_s as i128 * NS;
    let day_ns = 86_400 * NS;
    let epoch_day = local.div_euclid(day_ns) as i64;
    let rem = local.rem_euclid(day_ns);
    let (y, m, d) = cal::civil_from_days(epoch_day);
    let secs = (rem / NS) as i64;
    Civil { epoch_day, y, m, d, hh: secs / 3600, mi: (secs / 60) % 60, ss: secs % 60, sub: (rem % NS) as i64 }
}

impl Shared {
    fn record_value(&self, ns: i128, zone: u8, depth: u8) {
        let mut h = std::collections::hash_map::DefaultHasher::new();
        (ns, zone).hash(&mut h);
        let mut m = self.values[(h.finish() as usize) % SHARDS].lock().unwrap();
        let e = m.entry((ns, zone)).or_insert(depth);
        if depth < *e {
            *e = depth;
        }
    }

    fn case(&self, ns: i128, zone: u8, act: &Act) -> String {
        format!("zone={} ts={} action={}", self.zones[zone as usize].name, ns, act.name)
    }

    /// The civil datetime handed to a civil-datetime producer: the state's
    /// datetime shifted by `shift` seconds on the wall clock (a jiff civil
    /// addition, used as a building block only). Counts its ambiguity class.
    fn civil_input(&self, z: &Zoned, shift: i64) -> Option<(DateTime, &'static str)> {
        let dt = if shift == 0 { z.datetime() } else { z.datetime().checked_add(SignedDuration::from_secs(shift)).ok()? };
        let k = match z.time_zone().to_ambiguous_timestamp(dt).offset() {
            AmbiguousOffset::Unambiguous { .. } => 0,
            AmbiguousOffset::Gap { .. } => 1,
            AmbiguousOffset::Fold { .. } => 2,
        };
        self.civil_inputs[k].fetch_add(1, Relaxed);
        Some((dt, [":civil-unambiguous", ":civil-in-gap", ":civil-in-fold"][k]))
    }

    /// The operators are documented to panic on overflow: a panic is excluded
    /// (and counted) exactly when the checked twin returns an error.
    fn exec_operator(&self, z: &Zoned, zone: u8, o: Oper, a: Arith) -> Result<Option<Out>, String> {
        match guard(|| arith_operator(z, o, a)) {
            Ok(v) => Ok(Some(Out { v, zone: WantZone::Idx(zone), keeps_instant: false, input_class: "" })),
            Err(p) => {
                let add = o == Oper::Add || o == Oper::AddAssign;
                match guard(|| arith_checked(z, add, a).is_err()) {
                    Ok(true) => {
                        self.operator_overflow_panics.fetch_add(1, Relaxed);
                        Ok(None)
                    }
                    _ => Err(p),
                }
            }
        }
    }

    /// Execute the real operation. Ok(None) = the operation returned Err
    /// (no successor); Ok(Some(value, expected zone, keeps instant)).
    fn exec(&self, z: &Zoned, zone: u8, op: &Op) -> Result<Option<Out>, String> {
        let zn = &self.zones[zone as usize];
        let tz = &zn.tz;
        if let Op::Operator(o, a) = op {
            return self.exec_operator(z, zone, *o, *a);
        }
        let out = |v: Zoned, zone: WantZone, keeps_instant: bool| Out { v, zone, keeps_instant, input_class: "" };
        let same = |v: Result<Zoned, jiff::Error>| v.ok().map(|v| out(v, WantZone::Idx(zone), false));
        let classed = |o: Option<Out>, input_class: &'static str| o.map(|o| Out { input_class, ..o });
        guard(|| match op {
            Op::Operator(..) => unreachable!(),
            Op::Checked(add, a) => same(arith_checked(z, *add, *a)),
            Op::Saturating(add, a) => same(Ok(arith_saturating(z, *add, *a))),
            Op::NthWeekdayOfMonth(n, w) => same(z.nth_weekday_of_month(*n, *w)),
            Op::RoundUnit(u) => same(z.round(*u)),
            Op::RoundUnitInc(u, i) => same(z.round((*u, *i))),
            Op::WithDate(DateSel::Fixed(y, m, d)) => same(Date::new(*y, *m, *d).and_then(|d| z.with().date(d).build())),
            Op::WithDate(DateSel::Tomorrow) => same(z.date().tomorrow().and_then(|d| z.with().date(d).build())),
            Op::WithTime(t) => same(z.with().time(*t).build()),
            Op::WithYear(YearSel::Fixed(y)) => same(z.with().year(*y).build()),
            Op::WithYear(YearSel::Previous) => same(z.with().year(z.year() - 1).build()),
            Op::WithEraYear(y, e) => same(z.with().era_year(*y, *e).build()),
            Op::WithDayOfYear(d) => same(z.with().day_of_year(*d).build()),
            Op::WithDayOfYearNoLeap(d) => same(z.with().day_of_year_no_leap(*d).build()),
            Op::WithSecond(v) => same(z.with().second(*v).build()),
            Op::WithMillisecond(v) => same(z.with().millisecond(*v).build()),
            Op::WithMicrosecond(v) => same(z.with().microsecond(*v).build()),
            Op::WithHourConflict(h, c) => same(z.with().hour(*h).offset_conflict(*c).build()),
            Op::WithAll(h, mi, delta, c, d) => match Offset::from_seconds(z.offset().seconds() + delta) {
                Ok(o) => same(z.with().hour(*h).minute(*mi).offset(o).offset_conflict(*c).disambiguation(*d).build()),
                Err(_) => None,
            },
            Op::WithNothing => same(z.with().build()),
            Op::Civil(shift, prod) => {
                if matches!(prod, CivilProd::DateTimeInTz | CivilProd::DateInTz) && zn.iana.is_none() {
                    return None;
                }
                let (dt, class) = self.civil_input(z, *shift)?;
                let name = zn.iana.as_deref().unwrap_or("");
                classed(same(match prod {
                    CivilProd::DateTimeToZoned => dt.to_zoned(tz.clone()),
                    CivilProd::DateTimeInTz => dt.in_tz(name),
                    CivilProd::TzToZoned => tz.to_zoned(dt),
                    CivilProd::Compatible => tz.to_ambiguous_zoned(dt).compatible(),
                    CivilProd::Earlier => tz.to_ambiguous_zoned(dt).earlier(),
                    CivilProd::Later => tz.to_ambiguous_zoned(dt).later(),
                    CivilProd::Unambiguous => tz.to_ambiguous_zoned(dt).unambiguous(),
                    CivilProd::IntoAmbiguous(d) => tz.clone().into_ambiguous_zoned(dt).disambiguate(*d),
                    CivilProd::DateToZoned => dt.date().to_zoned(tz.clone()),
                    CivilProd::DateInTz => dt.date().in_tz(name),
                }), class)
            }
            Op::TimestampInTz => z.timestamp().in_tz(zn.iana.as_deref()?).ok().map(|v| out(v, WantZone::Idx(zone), true)),
            Op::ZonedNew => Some(out(Zoned::new(z.timestamp(), tz.clone()), WantZone::Idx(zone), true)),
            Op::Clone => Some(out(z.clone(), WantZone::Idx(zone), true)),
            Op::FromSystemTime => Zoned::try_from(std::time::SystemTime::from(z.timestamp())).ok().map(|v| out(v, WantZone::System, false)),
            Op::ParseTemporal(shift, off, c, d) => {
                // the zone annotation: the IANA name, or the offset of a fixed
                // zone; a POSIX zone cannot be written down (see PrintParse)
                let ann = match (&zn.iana, zn.name.strip_prefix("fixed(").and_then(|x| x.strip_suffix(')'))) {
                    (Some(n), _) => n.clone(),
                    (None, Some(o)) => o.to_string(),
                    _ => return None,
                };
                let (dt, class) = self.civil_input(z, *shift)?;
                let off = match off {
                    OffText::Absent => String::new(),
                    OffText::Zulu => "Z".to_string(),
                    OffText::Cur(delta) => {
                        let o = z.offset().seconds() + delta;
                        Offset::from_seconds(o).ok()?;
                        offset_text(o, true)
                    }
                };
                let text = format!("{}{}[{}]", dt, off, ann);
                classed(same(DateTimeParser::new().offset_conflict(*c).disambiguation(*d).parse_zoned(&text)), class)
            }
            Op::Strptime(shift, kind) => {
                let (dt, class) = self.civil_input(z, *shift)?;
                let civil = dt.strftime("%Y-%m-%dT%H:%M:%S%.f").to_string();
                let cur = z.offset().seconds();
                classed(match kind {
                    StrpKind::Q => same(Zoned::strptime("%Y-%m-%dT%H:%M:%S%.f %Q", format!("{} {}", civil, zn.iana.as_deref()?))),
                    StrpKind::ZQ(delta) => {
                        Offset::from_seconds(cur + delta).ok()?;
                        let text = format!("{} {} {}", civil, offset_text(cur + delta, true), zn.iana.as_deref()?);
                        same(Zoned::strptime("%Y-%m-%dT%H:%M:%S%.f %:z %Q", text))
                    }
                    StrpKind::Z(delta) => {
                        let o = Offset::from_seconds(cur + delta).ok()?;
                        let text = format!("{} {}", civil, offset_text(cur + delta, true));
                        Zoned::strptime("%Y-%m-%dT%H:%M:%S%.f %:z", text).ok().map(|v| out(v, WantZone::Fixed(o), false))
                    }
                }, class)
            }
            Op::Rfc2822(with_parser) => {
                let text = jiff::fmt::rfc2822::to_string(z).ok()?;
                // the zone of the result is the fixed offset WRITTEN IN THE
                // TEXT (read back here independently): `+hhmm` at the end
                let t = text.as_bytes();
                let n = t.len();
                if n < 5 || !(t[n - 5] == b'+' || t[n - 5] == b'-') || !t[n - 4..].iter().all(|b| b.is_ascii_digit()) {
                    return None;
                }
                let dig = |i: usize| (t[n - 4 + i] - b'0') as i32;
                let mut o = (dig(0) * 10 + dig(1)) * 3600 + (dig(2) * 10 + dig(3)) * 60;
                if t[n - 5] == b'-' {
                    o = -o;
                }
                let o = Offset::from_seconds(o).ok()?;
                let v = if *with_parser { jiff::fmt::rfc2822::DateTimeParser::new().parse_zoned(&text) } else { jiff::fmt::rfc2822::parse(&text) };
                v.ok().map(|v| out(v, WantZone::Fixed(o), false))
            }
            Op::Add(s) => same(z.checked_add(*s)),
            Op::Sub(s) => same(z.checked_sub(*s)),
            Op::Round(u, inc, m) => same(z.round(ZonedRound::new().smallest(*u).increment(*inc).mode(*m))),
            Op::WithHour(v) => same(z.with().hour(*v).build()),
            Op::WithMinute(v) => same(z.with().minute(*v).build()),
            Op::WithDay(v) => same(z.with().day(*v).build()),
            Op::WithMonth(v) => same(z.with().month(*v).build()),
            Op::WithNanosecond(v) => same(z.with().nanosecond(*v).build()),
            Op::WithSubsec(v) => same(z.with().subsec_nanosecond(*v).build()),
            Op::WithHourDisamb(h, d) => same(z.with().hour(*h).disambiguation(*d).build()),
            Op::WithOffset(delta, c) => match Offset::from_seconds(z.offset().seconds() + delta) {
                Ok(o) => same(z.with().offset(o).offset_conflict(*c).build()),
                Err(_) => None,
            },
            Op::StartOfDay => same(z.start_of_day()),
            Op::EndOfDay => same(z.end_of_day()),
            Op::Tomorrow => same(z.tomorrow()),
            Op::Yesterday => same(z.yesterday()),
            Op::FirstOfMonth => same(z.first_of_month()),
            Op::LastOfMonth => same(z.last_of_month()),
            Op::FirstOfYear => same(z.first_of_year()),
            Op::LastOfYear => same(z.last_of_year()),
            Op::NthWeekday(n, w) => same(z.nth_weekday(*n, *w)),
            Op::WithTimeZone(t) => Some(out(z.with_time_zone(self.zones[*t as usize].tz.clone()), WantZone::Idx(*t), true)),
            Op::InTz(t) => z.in_tz(self.zones[*t as usize].iana.as_deref().unwrap()).ok().map(|v| out(v, WantZone::Idx(*t), true)),
            Op::DateTimeToZoned => same(z.datetime().to_zoned(tz.clone())),
            Op::Ambiguous(d) => same(tz.to_ambiguous_zoned(z.datetime()).disambiguate(*d)),
            // a POSIX zone has neither an IANA name nor a fixed offset: its
            // printed form carries only the offset (not a claim of C09/C13)
            Op::PrintParse if self.zones[zone as usize].name.starts_with("posix(") => None,
            Op::PrintParse => same(z.to_string().parse::<Zoned>()),
            Op::TimestampToZoned => Some(out(z.timestamp().to_zoned(tz.clone()), WantZone::Idx(zone), false)),
            Op::UntilAdd(u) => {
                let base = Zoned::new(Timestamp::UNIX_EPOCH, tz.clone());
                match base.until((*u, z)) {
                    Ok(span) => same(base.checked_add(span)),
                    Err(_) => None,
                }
            }
        })
    }

    /// The invariant on a produced value. Returns false if it is violated.
    /// `src` is the state the value was produced from (None for start values).
    #[allow(clippy::too_many_arguments)]
    fn invariant(&self, v: &Zoned, src: Option<&Zoned>, from_ns: i128, from_zone: u8, act: &Act, want: &WantZone, keeps_instant: bool, input_class: &str) -> bool {
        let sec = "bfs";
        let case = || self.case(from_ns, from_zone, act);
        let res = guard(|| {
            let mut bad: Vec<(&'static str, String)> = vec![];
            let ts = v.timestamp();
            let tsn = ts.as_nanosecond();
            let want_off = v.time_zone().to_offset(ts);
            if v.offset() != want_off {
                bad.push(("offset-mismatch", format!("offset() = {:?} but time_zone().to_offset(timestamp()) = {:?}; value {:?}", v.offset(), want_off, v)));
            }
            let want_dt = v.offset().to_datetime(ts);
            if v.datetime() != want_dt {
                bad.push(("datetime-mismatch", format!("datetime() = {} but offset().to_datetime(timestamp()) = {}; offset {:?} ts {}", v.datetime(), want_dt, v.offset(), tsn)));
            }
            // I2m: the civil datetime recomputed by the reference model from
            // the instant and offset() (no jiff arithmetic involved)
            let c = model_civil(tsn, v.offset().seconds());
            let dt = v.datetime();
            let got = (dt.year() as i64, dt.month() as i64, dt.day() as i64, dt.hour() as i64, dt.minute() as i64, dt.second() as i64, dt.subsec_nanosecond() as i64);
            if got != (c.y, c.m, c.d, c.hh, c.mi, c.ss, c.sub) {
                bad.push((
                    "datetime-vs-model",
                    format!("datetime() = {} but instant {} ns shifted by offset {} s reads {:04}-{:02}-{:02}T{:02}:{:02}:{:02}.{:09}", dt, tsn, v.offset().seconds(), c.y, c.m, c.d, c.hh, c.mi, c.ss, c.sub),
                ));
            }
            // I2a: every civil accessor of the Zoned itself against the model
            let mut clone_differs: Option<String> = None;
            {
                let mut f: Vec<String> = vec![];
                let mut chk = |name: &str, got: i64, want: i64| {
                    if got != want {
                        f.push(format!("{}() = {} model {}", name, got, want));
                    }
                };
                chk("year", v.year() as i64, c.y);
                chk("month", v.month() as i64, c.m);
                chk("day", v.day() as i64, c.d);
                chk("hour", v.hour() as i64, c.hh);
                chk("minute", v.minute() as i64, c.mi);
                chk("second", v.second() as i64, c.ss);
                chk("millisecond", v.millisecond() as i64, c.sub / 1_000_000);
                chk("microsecond", v.microsecond() as i64, (c.sub / 1_000) % 1_000);
                chk("nanosecond", v.nanosecond() as i64, c.sub % 1_000);
                chk("subsec_nanosecond", v.subsec_nanosecond() as i64, c.sub);
                chk("weekday", v.weekday().to_sunday_zero_offset() as i64, cal::weekday_from_days(c.epoch_day) as i64);
                let doy = cal::day_of_year(c.y, c.m, c.d);
                chk("day_of_year", v.day_of_year() as i64, doy);
                let leap = cal::is_leap(c.y);
                let nl = if leap && (c.m, c.d) == (2, 29) { -1 } else if leap && c.m > 2 { doy - 1 } else { doy };
                chk("day_of_year_no_leap", v.day_of_year_no_leap().map(|x| x as i64).unwrap_or(-1), nl);
                let (ey, era) = v.era_year();
                let (wy, wera) = if c.y >= 1 { (c.y, Era::CE) } else { (1 - c.y, Era::BCE) };
                chk("era_year.0", ey as i64, wy);
                chk("era_year.1", (era == Era::CE) as i64, (wera == Era::CE) as i64);
                chk("days_in_month", v.days_in_month() as i64, cal::days_in_month(c.y, c.m));
                chk("days_in_year", v.days_in_year() as i64, cal::days_in_year(c.y));
                chk("in_leap_year", v.in_leap_year() as i64, leap as i64);
                let d = v.date();
                chk("date.year", d.year() as i64, c.y);
                chk("date.month", d.month() as i64, c.m);
                chk("date.day", d.day() as i64, c.d);
                let t = v.time();
                chk("time.hour", t.hour() as i64, c.hh);
                chk("time.minute", t.minute() as i64, c.mi);
                chk("time.second", t.second() as i64, c.ss);
                chk("time.subsec_nanosecond", t.subsec_nanosecond() as i64, c.sub);
                let (iy, iw, iwd) = cal::iso_week_date(c.y, c.m, c.d);
                // I7 (clone() is field-for-field identical) is checked on the
                // same clone that `iso_week_date(self)` consumes
                let cl = v.clone();
                if cl.timestamp() != ts || cl.offset() != v.offset() || cl.datetime() != v.datetime() || cl.time_zone() != v.time_zone() {
                    clone_differs = Some(format!("clone {:?} of value {:?}", cl, v));
                }
                let w = cl.iso_week_date();
                chk("iso_week_date.year", w.year() as i64, iy);
                chk("iso_week_date.week", w.week() as i64, iw);
                chk("iso_week_date.weekday", w.weekday().to_monday_one_offset() as i64, iwd);
                self.accessor_fields_compared.fetch_add(29, Relaxed);
                if !f.is_empty() {
                    bad.push(("accessor-vs-model", format!("{}; value {:?}", f.join(", "), v)));
                }
            }
            let fixed_tz;
            let want_tz: &TimeZone = match want {
                WantZone::Idx(i) => &self.zones[*i as usize].tz,
                WantZone::Fixed(o) => {
                    fixed_tz = TimeZone::fixed(*o);
                    &fixed_tz
                }
                WantZone::System => &self.system_tz,
            };
            if v.time_zone() != want_tz {
                bad.push(("zone-unexpected", format!("zone is {:?}, expected {:?}", v.time_zone(), want_tz)));
            }
            if keeps_instant && tsn != from_ns {
                bad.push(("instant-changed", format!("instant {} -> {}", from_ns, tsn)));
            }
            // Eq / Ord / Hash depend on the instant only
            let other = match want {
                WantZone::Idx(i) => (*i as usize + 1) % self.zones.len(),
                _ => (from_zone as usize + 1) % self.zones.len(),
            };
            let w = Zoned::new(ts, self.zones[other].tz.clone());
            let hash = |z: &Zoned| {
                let mut h = std::collections::hash_map::DefaultHasher::new();
                z.hash(&mut h);
                h.finish()
            };
            if !(v == &w) || v.cmp(&w) != std::cmp::Ordering::Equal || v.partial_cmp(&w) != Some(std::cmp::Ordering::Equal) || hash(v) != hash(&w) {
                bad.push((
                    "eq-ord-hash",
                    format!("same instant in {}: == {} cmp {:?} hash equal {}", self.zones[other].name, v == &w, v.cmp(&w), hash(v) == hash(&w)),
                ));
            }
            // the `&Zoned` flavours of == and partial_cmp, and reflexivity
            {
                // (`rv == w` / `rv < w` with `rv: &Zoned`, `w: Zoned` select the
                // `impl PartialEq<Zoned> for &Zoned` / `impl PartialOrd<Zoned> for
                // &Zoned`; a method call would auto-deref to the `Zoned` impls)
                let rv: &Zoned = v;
                if !(rv == w)
                    || <&Zoned as PartialOrd<Zoned>>::partial_cmp(&rv, &w) != Some(std::cmp::Ordering::Equal)
                    || rv < w
                    || rv > w
                    || !(rv <= w)
                    || !(rv >= w)
                    || !(&w == *rv)
                    || w.cmp(v) != std::cmp::Ordering::Equal
                    || v != v
                {
                    bad.push(("eq-ord-hash", format!("same instant in {}: &Zoned == Zoned {} / reversed / reflexive comparison disagree", self.zones[other].name, rv == w)));
                }
            }
            self.pairs[0].fetch_add(1, Relaxed);
            // different instants are ordered as the instants are: the state
            // the value came from, and the instants 1 ns before and after it
            // read in the other zone (whose civil reading is usually far away)
            {
                // (one neighbour per value, the side chosen by the parity of the
                // instant's second: both sides occur over the run)
                let delta: i128 = if tsn.div_euclid(NS) % 2 == 0 { 1 } else { -1 };
                let neighbour = Timestamp::from_nanosecond(tsn + delta)
                    .or_else(|_| Timestamp::from_nanosecond(tsn - delta))
                    .ok()
                    .map(|t| Zoned::new(t, self.zones[other].tz.clone()));
                let others: [Option<(&Zoned, &str)>; 2] =
                    [src.map(|z0| (z0, "the source state")), neighbour.as_ref().map(|n| (n, "1 ns away in another zone"))];
                for (o, what) in others.iter().flatten() {
                    let o: &Zoned = o;
                    let m = tsn.cmp(&o.timestamp().as_nanosecond());
                    let is_eq = m == std::cmp::Ordering::Equal;
                    let rv: &Zoned = v;
                    let (lt, gt) = (m == std::cmp::Ordering::Less, m == std::cmp::Ordering::Greater);
                    let ok = v.cmp(o) == m
                        && o.cmp(v) == m.reverse()
                        && v.partial_cmp(o) == Some(m)
                        && <&Zoned as PartialOrd<Zoned>>::partial_cmp(&rv, o) == Some(m)
                        && (v == o) == is_eq
                        && (rv == *o) == is_eq
                        && (v < o) == lt
                        && (v > o) == gt
                        && (rv < *o) == lt
                        && (rv > *o) == gt
                        && (rv <= *o) == !gt
                        && (rv >= *o) == !lt
                        && (!is_eq || hash(v) == hash(o));
                    self.pairs[if is_eq { 0 } else { 1 }].fetch_add(1, Relaxed);
                    if !ok {
                        bad.push((
                            "eq-ord-hash",
                            format!("against {} ({:?}): instants compare {:?}, cmp {:?}, == {}, hash equal {}", what, o, m, v.cmp(o), v == o, hash(v) == hash(o)),
                        ));
                    }
                }
            }
            if let Some(d) = clone_differs {
                bad.push(("clone-differs", d));
            }
            // field-for-field equal to the canonical reconstruction (what the
            // canonicalisation argument relies on)
            let canon = Zoned::new(ts, want_tz.clone());
            if bad.is_empty() && (canon.offset() != v.offset() || canon.datetime() != v.datetime()) {
                bad.push(("differs-from-Zoned::new", format!("Zoned::new gives {:?}, value is {:?}", canon, v)));
            }
            bad
        });
        match res {
            Err(p) => {
                self.r.viol(sec, &format!("{}/invariant-{}{}", act.sig, panic_sig(&p), input_class), case(), p);
                false
            }
            Ok(mut bad) => {
                // one line per failure class
                bad.dedup_by(|a, b| a.0 == b.0);
                for (class, detail) in &bad {
                    self.r.viol(sec, &format!("{}/{}{}", act.sig, class, input_class), case(), detail.clone());
                }
                bad.is_empty()
            }
        }
    }

    /// One transition: rebuild the value, run the operation, check the
    /// invariant, canonicalise. A probe's value is checked but not returned.
    fn step(&self, ns: i128, zone: u8, depth: u8, ai: usize) -> Option<St> {
        let act = &self.acts[ai];
        let tz = &self.zones[zone as usize].tz;
        let z = Zoned::new(Timestamp::from_nanosecond(ns).expect("state instant in range"), tz.clone());
        self.transitions.fetch_add(1, Relaxed);
        if act.probe.is_some() {
            self.probe_transitions.fetch_add(1, Relaxed);
        }
        match self.exec(&z, zone, &act.op) {
            Err(p) => {
                // (for probes the sign of a year embedded in the message is
                // dropped from the signature as the digits are, and digits cut
                // by the 80-character limit are dropped: one defect at both
                // ends of the range is one signature)
                let ps = if act.probe.is_some() { panic_sig(&p).replace("-#", "#").trim_end_matches('#').trim_end().to_string() } else { panic_sig(&p) };
                self.r.viol("bfs", &format!("{}/{}", act.sig, ps), self.case(ns, zone, act), p);
                self.no_successor.fetch_add(1, Relaxed);
                None
            }
            Ok(None) => {
                self.no_successor.fetch_add(1, Relaxed);
                self.per_action_err[ai].fetch_add(1, Relaxed);
                None
            }
            Ok(Some(o)) => {
                self.produced.fetch_add(1, Relaxed);
                self.per_action_ok[ai].fetch_add(1, Relaxed);
                if o.v.offset() != z.offset() {
                    self.per_action_offset_changed[ai].fetch_add(1, Relaxed);
                }
                if !self.invariant(&o.v, Some(&z), ns, zone, act, &o.zone, o.keeps_instant, o.input_class) {
                    self.violating_values.fetch_add(1, Relaxed);
                    return None;
                }
                if act.probe.is_some() {
                    return None;
                }
                let WantZone::Idx(want_zone) = o.zone else { unreachable!("expanding actions stay within the zones of the run") };
                let out = o.v.timestamp().as_nanosecond();
                self.record_value(out, want_zone, depth + 1);
                Some(St { ns: out, zone: want_zone, depth: depth + 1 })
            }
        }
    }
}

struct ZModel {
    sh: Arc<Shared>,
    init: Vec<St>,
}

impl Model for ZModel {
    type State = St;
    type Action = u16;

    fn init_states(&self) -> Vec<St> {
        self.init.clone()
    }

    fn actions(&self, s: &St, out: &mut Vec<u16>) {
        if s.depth < self.sh.bound {
            for (i, a) in self.sh.acts.iter().enumerate() {
                // (the probes of the depth-0 states are run by `run_bfs` itself, in
                // parallel, before the checker starts: stateright hands the whole
                // initial job to one thread)
                if a.probe.map_or(true, |d| s.depth > 0 && s.depth <= d) {
                    out.push(i as u16);
                }
            }
        }
    }

    fn next_state(&self, s: &St, a: u16) -> Option<St> {
        self.sh.step(s.ns, s.zone, s.depth, a as usize)
    }

    fn properties(&self) -> Vec<Property<Self>> {
        // Violations are recorded through `Report` from inside `next_state`
        // (the invariant is on the produced value, not on the canonical
        // state). This property never fails, so that the checker explores the
        // whole bounded space instead of stopping at the first discovery.
        vec![Property::always("explore the whole bounded space", |_, _| true)]
    }
}

/// Depths up to which the light (`l`) and heavy (`h`) probes are offered;
/// `None` = the family is not part of the run.
#[derive(Clone, Copy)]
struct Probes {
    l: Option<u8>,
    h: Option<u8>,
}

fn build_actions(zones: &[Zn], core_only: bool, probes: Probes) -> Vec<Act> {
    let mut v: Vec<Act> = vec![];
    let mut push = |name: String, op: Op| v.push(Act { sig: name.clone(), name, op, probe: None });
    let sp = Span::new();
    let spans: Vec<(&str, Span)> = vec![
        ("1ns", sp.nanoseconds(1)),
        ("1h", sp.hours(1)),
        ("25h", sp.hours(25)),
        ("1d", sp.days(1)),
        ("1mo", sp.months(1)),
        ("1y", sp.years(1)),
        ("1mo1d1h", sp.months(1).days(1).hours(1)),
    ];
    for (n, s) in &spans {
        if core_only && !["1ns", "1h", "1d", "1mo"].contains(n) {
            continue;
        }
        push(format!("checked_add({})", n), Op::Add(*s));
        push(format!("checked_sub({})", n), Op::Sub(*s));
    }
    let rounds: Vec<(&str, Unit, i64)> = vec![("minute", Unit::Minute, 1), ("hour", Unit::Hour, 1), ("6hours", Unit::Hour, 6), ("day", Unit::Day, 1)];
    let modes = [("HalfExpand", RoundMode::HalfExpand), ("Floor", RoundMode::Floor), ("Ceil", RoundMode::Ceil)];
    for (n, u, inc) in &rounds {
        for (mn, m) in &modes {
            if core_only && !((*n == "hour" || *n == "day") && *mn == "HalfExpand") {
                continue;
            }
            push(format!("round({},{})", n, mn), Op::Round(*u, *inc, *m));
        }
    }
    if core_only {
        push("with.hour(2)".into(), Op::WithHour(2));
        push("with.day(31)".into(), Op::WithDay(31));
    } else {
        for h in [0i8, 2, 23] {
            push(format!("with.hour({})", h), Op::WithHour(h));
        }
        push("with.minute(30)".into(), Op::WithMinute(30));
        for d in [1i8, 31] {
            push(format!("with.day({})", d), Op::WithDay(d));
        }
        for m in [3i8, 11] {
            push(format!("with.month({})", m), Op::WithMonth(m));
        }
        push("with.nanosecond(0)".into(), Op::WithNanosecond(0));
        push("with.subsec_nanosecond(999999999)".into(), Op::WithSubsec(999_999_999));
        for (n, d) in [("earlier", Disambiguation::Earlier), ("later", Disambiguation::Later), ("reject", Disambiguation::Reject)] {
            push(format!("with.hour(1).disambiguation({})", n), Op::WithHourDisamb(1, d));
        }
        for (n, c) in [
            ("always_offset", OffsetConflict::AlwaysOffset),
            ("always_time_zone", OffsetConflict::AlwaysTimeZone),
            ("prefer_offset", OffsetConflict::PreferOffset),
            ("reject", OffsetConflict::Reject),
        ] {
            push(format!("with.offset(current+1h).offset_conflict({})", n), Op::WithOffset(3600, c));
        }
    }
    push("start_of_day".into(), Op::StartOfDay);
    push("end_of_day".into(), Op::EndOfDay);
    push("tomorrow".into(), Op::Tomorrow);
    push("yesterday".into(), Op::Yesterday);
    if !core_only {
        push("first_of_month".into(), Op::FirstOfMonth);
        push("last_of_month".into(), Op::LastOfMonth);
        push("first_of_year".into(), Op::FirstOfYear);
        push("last_of_year".into(), Op::LastOfYear);
        push("nth_weekday(1,Sunday)".into(), Op::NthWeekday(1, Weekday::Sunday));
        push("nth_weekday(-1,Sunday)".into(), Op::NthWeekday(-1, Weekday::Sunday));
    }
    // zone changes: the action "to zone t" is offered in every state; moving
    // to the zone one is already in is an identity transition.
    for (t, z) in zones.iter().enumerate() {
        if core_only && t >= 3 {
            break;
        }
        push(format!("with_time_zone({})", z.name), Op::WithTimeZone(t as u8));
        if z.iana.is_some() && !core_only {
            push(format!("in_tz({})", z.name), Op::InTz(t as u8));
        }
    }
    push("datetime().to_zoned(tz)".into(), Op::DateTimeToZoned);
    for (n, d) in [
        ("compatible", Disambiguation::Compatible),
        ("earlier", Disambiguation::Earlier),
        ("later", Disambiguation::Later),
        ("reject", Disambiguation::Reject),
    ] {
        if core_only && (n == "compatible" || n == "reject") {
            continue;
        }
        push(format!("tz.to_ambiguous_zoned(datetime()).{}", n), Op::Ambiguous(d));
    }
    push("to_string().parse()".into(), Op::PrintParse);
    if !core_only {
        push("timestamp().to_zoned(tz)".into(), Op::TimestampToZoned);
        push("epoch.until(z)+checked_add(largest=hour)".into(), Op::UntilAdd(Unit::Hour));
        push("epoch.until(z)+checked_add(largest=year)".into(), Op::UntilAdd(Unit::Year));
    }
    if let Some(d) = probes.l {
        for (name, op) in light_probes() {
            v.push(Act { sig: sig_of(&name), name, op, probe: Some(d) });
        }
    }
    if let Some(d) = probes.h {
        for (name, op) in heavy_probes() {
            v.push(Act { sig: sig_of(&name), name, op, probe: Some(d) });
        }
    }
    {
        let mut seen = std::collections::HashSet::new();
        for a in &v {
            assert!(seen.insert(a.name.clone()), "duplicate action name {}", a.name);
        }
    }
    v
}

/// Signature prefix of a probe: its name without the civil shift.
fn sig_of(name: &str) -> String {
    let mut s = name.to_string();
    for (sn, _) in &SHIFTS[1..] {
        s = s.replace(&format!("datetime(){}", sn), "datetime()");
    }
    s.replace("date()+1d", "date()")
}

const DISAMBS: [(&str, Disambiguation); 4] =
    [("compatible", Disambiguation::Compatible), ("earlier", Disambiguation::Earlier), ("later", Disambiguation::Later), ("reject", Disambiguation::Reject)];
const CONFLICTS: [(&str, OffsetConflict); 4] = [
    ("always_offset", OffsetConflict::AlwaysOffset),
    ("always_time_zone", OffsetConflict::AlwaysTimeZone),
    ("prefer_offset", OffsetConflict::PreferOffset),
    ("reject", OffsetConflict::Reject),
];
/// civil shifts (seconds) applied to the state's datetime before it is handed
/// to a civil-datetime producer: from the instants just before / at a
/// transition these reach the inside of 1 h, 30 min, 44.5 min and 24 h gaps
const SHIFTS: [(&str, i64); 4] = [("", 0), ("+1h", 3600), ("-1h", -3600), ("+30m", 1800)];

/// Light probes: every non-parsing producer of a `Zoned` that the expanding
/// alphabet lacks (or has with fewer argument classes).
fn light_probes() -> Vec<(String, Op)> {
    let mut v: Vec<(String, Op)> = vec![];
    let sp = Span::new();
    let h = 3600i64;
    // -- arithmetic with the two absolute duration types
    for (n, secs, nanos) in [("1ns", 0i64, 1i32), ("1h", h, 0), ("25h", 25 * h, 0), ("-1h", -h, 0), ("-25h", -25 * h, 0)] {
        v.push((format!("checked_add(SignedDuration {})", n), Op::Checked(true, Arith::Sd(SignedDuration::new(secs, nanos)))));
    }
    v.push(("checked_sub(SignedDuration 1h)".into(), Op::Checked(false, Arith::Sd(SignedDuration::from_secs(h)))));
    v.push(("checked_add(std Duration 1h)".into(), Op::Checked(true, Arith::Ud(StdDuration::from_secs(3600)))));
    v.push(("checked_sub(std Duration 1h)".into(), Op::Checked(false, Arith::Ud(StdDuration::from_secs(3600)))));
    // -- spans of the units and signs the expanding alphabet lacks
    for (n, s) in [("1w", sp.weeks(1)), ("-1mo-1d-1h", sp.months(-1).days(-1).hours(-1)), ("90m", sp.minutes(90)), ("-3600s", sp.seconds(-3600)), ("1y1ms1us", sp.years(1).milliseconds(1).microseconds(1))] {
        v.push((format!("checked_add({})", n), Op::Checked(true, Arith::Sp(s))));
    }
    // -- saturating arithmetic: a calendar span, a time span and the two
    //    duration types; 96 h and 1 month overflow from the start values
    //    three days inside the limits, so both arms are taken
    let sats: Vec<(&str, Arith)> = vec![
        ("1h", Arith::Sp(sp.hours(1))),
        ("96h", Arith::Sp(sp.hours(96))),
        ("1mo", Arith::Sp(sp.months(1))),
        ("SignedDuration 96h", Arith::Sd(SignedDuration::from_hours(96))),
        ("SignedDuration -96h", Arith::Sd(SignedDuration::from_hours(-96))),
        ("SignedDuration::MIN", Arith::Sd(SignedDuration::MIN)),
        ("std Duration 96h", Arith::Ud(StdDuration::from_secs(96 * 3600))),
        ("std Duration::MAX", Arith::Ud(StdDuration::MAX)),
    ];
    for (n, a) in &sats {
        v.push((format!("saturating_add({})", n), Op::Saturating(true, *a)));
        v.push((format!("saturating_sub({})", n), Op::Saturating(false, *a)));
    }
    // -- the operators
    let opers = [("&z + ", Oper::Add), ("&z - ", Oper::Sub), ("z += ", Oper::AddAssign), ("z -= ", Oper::SubAssign)];
    let oper_args: Vec<(&str, Arith)> = vec![
        ("Span 1h", Arith::Sp(sp.hours(1))),
        ("Span 1mo", Arith::Sp(sp.months(1))),
        ("SignedDuration 1h", Arith::Sd(SignedDuration::from_hours(1))),
        ("std Duration 1h", Arith::Ud(StdDuration::from_secs(3600))),
    ];
    for (on, o) in &opers {
        for (an, a) in &oper_args {
            v.push((format!("{}{}", on, an), Op::Operator(*o, *a)));
        }
    }
    // -- navigation
    for (n, w, wn) in [(1i8, Weekday::Sunday, "Sunday"), (2, Weekday::Sunday, "Sunday"), (-1, Weekday::Sunday, "Sunday"), (5, Weekday::Sunday, "Sunday"), (1, Weekday::Saturday, "Saturday"), (-1, Weekday::Saturday, "Saturday")] {
        v.push((format!("nth_weekday_of_month({},{})", n, wn), Op::NthWeekdayOfMonth(n, w)));
    }
    v.push(("nth_weekday(2,Sunday)".into(), Op::NthWeekday(2, Weekday::Sunday)));
    v.push(("nth_weekday(-1,Saturday)".into(), Op::NthWeekday(-1, Weekday::Saturday)));
    // -- rounding: the remaining units, increments and modes
    let more_modes = [
        ("Trunc", RoundMode::Trunc),
        ("Expand", RoundMode::Expand),
        ("HalfFloor", RoundMode::HalfFloor),
        ("HalfCeil", RoundMode::HalfCeil),
        ("HalfTrunc", RoundMode::HalfTrunc),
        ("HalfEven", RoundMode::HalfEven),
    ];
    for (mn, m) in &more_modes {
        v.push((format!("round(day,{})", mn), Op::Round(Unit::Day, 1, *m)));
        v.push((format!("round(hour,{})", mn), Op::Round(Unit::Hour, 1, *m)));
    }
    v.push(("round(second,HalfExpand)".into(), Op::Round(Unit::Second, 1, RoundMode::HalfExpand)));
    v.push(("round(30seconds,Ceil)".into(), Op::Round(Unit::Second, 30, RoundMode::Ceil)));
    v.push(("round(millisecond,Ceil)".into(), Op::Round(Unit::Millisecond, 1, RoundMode::Ceil)));
    v.push(("round(microsecond,Floor)".into(), Op::Round(Unit::Microsecond, 1, RoundMode::Floor)));
    v.push(("round(nanosecond,HalfEven)".into(), Op::Round(Unit::Nanosecond, 1, RoundMode::HalfEven)));
    v.push(("round(30minutes,Expand)".into(), Op::Round(Unit::Minute, 30, RoundMode::Expand)));
    v.push(("round(12hours,HalfExpand)".into(), Op::Round(Unit::Hour, 12, RoundMode::HalfExpand)));
    v.push(("round(Unit::Hour)".into(), Op::RoundUnit(Unit::Hour)));
    v.push(("round(Unit::Day)".into(), Op::RoundUnit(Unit::Day)));
    v.push(("round((Unit::Minute,15))".into(), Op::RoundUnitInc(Unit::Minute, 15)));
    // -- with(): every setter the expanding alphabet lacks
    //    2011-12-30 does not exist in Pacific/Apia, 2024-03-10 / 2024-03-31 /
    //    2024-10-06 are gap days of New_York / London / Lord_Howe
    for (y, m, d) in [(2011i16, 12i8, 30i8), (2024, 3, 10), (2024, 3, 31), (2024, 10, 6)] {
        v.push((format!("with.date({:04}-{:02}-{:02})", y, m, d), Op::WithDate(DateSel::Fixed(y, m, d))));
    }
    v.push(("with.date(tomorrow)".into(), Op::WithDate(DateSel::Tomorrow)));
    for (n, t) in [("00:00", Time::midnight()), ("02:30", Time::constant(2, 30, 0, 0)), ("01:59:59.999999999", Time::constant(1, 59, 59, 999_999_999)), ("23:59:59.999999999", Time::MAX)] {
        v.push((format!("with.time({})", n), Op::WithTime(t)));
    }
    v.push(("with.year(2024)".into(), Op::WithYear(YearSel::Fixed(2024))));
    v.push(("with.year(1919)".into(), Op::WithYear(YearSel::Fixed(1919))));
    v.push(("with.year(previous)".into(), Op::WithYear(YearSel::Previous)));
    v.push(("with.era_year(2011,CE)".into(), Op::WithEraYear(2011, Era::CE)));
    v.push(("with.era_year(1,BCE)".into(), Op::WithEraYear(1, Era::BCE)));
    for d in [1i16, 60, 366] {
        v.push((format!("with.day_of_year({})", d), Op::WithDayOfYear(d)));
    }
    for d in [59i16, 365] {
        v.push((format!("with.day_of_year_no_leap({})", d), Op::WithDayOfYearNoLeap(d)));
    }
    for s in [0i8, 59] {
        v.push((format!("with.second({})", s), Op::WithSecond(s)));
    }
    v.push(("with.millisecond(999)".into(), Op::WithMillisecond(999)));
    v.push(("with.microsecond(999)".into(), Op::WithMicrosecond(999)));
    v.push(("with.nanosecond(999)".into(), Op::WithNanosecond(999)));
    v.push(("with.subsec_nanosecond(0)".into(), Op::WithSubsec(0)));
    v.push(("with.minute(0)".into(), Op::WithMinute(0)));
    v.push(("with.build()".into(), Op::WithNothing));
    // the offset setter with the current offset, and with the offsets 1 h /
    // 30 min away (the other side of a fold, or no valid offset at all)
    for (dn, delta) in [("current", 0i32), ("current-1h", -3600), ("current+30m", 1800), ("current-30m", -1800)] {
        for (cn, c) in &CONFLICTS {
            v.push((format!("with.offset({}).offset_conflict({})", dn, cn), Op::WithOffset(delta, *c)));
        }
    }
    // the conflict strategies against the ORIGINAL offset after a clock change
    for hour in [1i8, 2] {
        for (cn, c) in &CONFLICTS {
            v.push((format!("with.hour({}).offset_conflict({})", hour, cn), Op::WithHourConflict(hour, *c)));
        }
    }
    for (n, d) in &DISAMBS {
        v.push((format!("with.hour(2).disambiguation({})", n), Op::WithHourDisamb(2, *d)));
    }
    v.push(("with.hour(1).disambiguation(compatible)".into(), Op::WithHourDisamb(1, Disambiguation::Compatible)));
    // -- constructors from a civil datetime (shifted, see SHIFTS)
    for (sn, shift) in &SHIFTS {
        let arg = if *shift == 0 { "datetime()".to_string() } else { format!("datetime(){}", sn) };
        if *shift != 0 {
            v.push((format!("({}).to_zoned(tz)", arg), Op::Civil(*shift, CivilProd::DateTimeToZoned)));
        }
        v.push((format!("({}).in_tz(name)", arg), Op::Civil(*shift, CivilProd::DateTimeInTz)));
        v.push((format!("tz.to_zoned({})", arg), Op::Civil(*shift, CivilProd::TzToZoned)));
        v.push((format!("tz.to_ambiguous_zoned({}).compatible()", arg), Op::Civil(*shift, CivilProd::Compatible)));
        v.push((format!("tz.to_ambiguous_zoned({}).earlier()", arg), Op::Civil(*shift, CivilProd::Earlier)));
        v.push((format!("tz.to_ambiguous_zoned({}).later()", arg), Op::Civil(*shift, CivilProd::Later)));
        v.push((format!("tz.to_ambiguous_zoned({}).unambiguous()", arg), Op::Civil(*shift, CivilProd::Unambiguous)));
        for (n, d) in &DISAMBS {
            v.push((format!("tz.into_ambiguous_zoned({}).disambiguate({})", arg, n), Op::Civil(*shift, CivilProd::IntoAmbiguous(*d))));
        }
    }
    // a date alone means its midnight (which Sao_Paulo's gaps skip); +1 day
    // reaches the day after a transition day's eve
    for (sn, shift) in [("", 0i64), ("+1d", 86_400)] {
        v.push((format!("date(){}.to_zoned(tz)", sn), Op::Civil(shift, CivilProd::DateToZoned)));
        v.push((format!("date(){}.in_tz(name)", sn), Op::Civil(shift, CivilProd::DateInTz)));
    }
    v.push(("timestamp().in_tz(name)".into(), Op::TimestampInTz));
    v.push(("Zoned::new(timestamp(),tz)".into(), Op::ZonedNew));
    v.push(("clone()".into(), Op::Clone));
    v.push(("Zoned::try_from(SystemTime)".into(), Op::FromSystemTime));
    v
}

/// Heavy probes: the full option products of `with()` and the text parsers.
fn heavy_probes() -> Vec<(String, Op)> {
    let mut v: Vec<(String, Op)> = vec![];
    // all options at once: clock time 01:30 / 02:30 (inside the usual folds
    // and gaps), offset right or 1 h off, every strategy pair
    for (hour, minute) in [(1i8, 30i8), (2, 30)] {
        for (dn, delta) in [("current", 0i32), ("current+1h", 3600), ("current-1h", -3600)] {
            for (cn, c) in &CONFLICTS {
                for (n, d) in &DISAMBS {
                    v.push((
                        format!("with.hour({}).minute({}).offset({}).offset_conflict({}).disambiguation({})", hour, minute, dn, cn, n),
                        Op::WithAll(hour, minute, delta, *c, *d),
                    ));
                }
            }
        }
    }
    for (sn, shift) in &SHIFTS {
        let arg = format!("datetime(){}", sn);
        // no offset in the text: only the disambiguation matters
        for (n, d) in &DISAMBS {
            v.push((format!("DateTimeParser::parse_zoned[{}, no offset].disambiguation({})", arg, n), Op::ParseTemporal(*shift, OffText::Absent, OffsetConflict::Reject, *d)));
        }
        // `Z`: documented to be taken as the instant, whatever the strategy
        for (cn, c) in &CONFLICTS {
            v.push((format!("DateTimeParser::parse_zoned[{}, Z].offset_conflict({})", arg, cn), Op::ParseTemporal(*shift, OffText::Zulu, *c, Disambiguation::Compatible)));
        }
        // a numeric offset: the state's, or 1 h / 30 min away from it
        for (dn, delta) in [("current", 0i32), ("current+1h", 3600), ("current-1h", -3600), ("current+30m", 1800)] {
            for (cn, c) in &CONFLICTS {
                for (n, d) in &DISAMBS {
                    v.push((
                        format!("DateTimeParser::parse_zoned[{}, offset {}].offset_conflict({}).disambiguation({})", arg, dn, cn, n),
                        Op::ParseTemporal(*shift, OffText::Cur(delta), *c, *d),
                    ));
                }
            }
        }
        v.push((format!("Zoned::strptime[{} %Q]", arg), Op::Strptime(*shift, StrpKind::Q)));
        for (dn, delta) in [("current", 0i32), ("current+1h", 3600), ("current-1h", -3600)] {
            v.push((format!("Zoned::strptime[{} %:z={} %Q]", arg, dn), Op::Strptime(*shift, StrpKind::ZQ(delta))));
        }
        for (dn, delta) in [("current", 0i32), ("current+1h", 3600)] {
            v.push((format!("Zoned::strptime[{} %:z={}]", arg, dn), Op::Strptime(*shift, StrpKind::Z(delta))));
        }
    }
    v.push(("rfc2822::to_string->rfc2822::parse".into(), Op::Rfc2822(false)));
    v.push(("rfc2822::to_string->rfc2822::DateTimeParser::parse_zoned".into(), Op::Rfc2822(true)));
    v
}

fn load_zones(names: &[&str]) -> Vec<Zn> {
    let mut v = vec![];
    for n in names {
        let tz = jiff::tz::db().get(n).unwrap_or_else(|e| panic!("zone {} not available from the system database: {}", n, e));
        v.push(Zn { name: n.to_string(), tz, iana: Some(n.to_string()) });
    }
    v.push(Zn { name: "fixed(+05:30)".into(), tz: TimeZone::fixed(Offset::from_seconds(19_800).unwrap()), iana: None });
    // a synthetic zone whose "summer" regime (+2) lasts only 30 real minutes:
    // a second transition lies within the first one's gap, which no IANA zone
    // offers (the situation in which a gap's `after` offset is not the offset
    // in force at the resolved instant)
    v.push(Zn { name: format!("posix({})", SHORT_REGIME), tz: TimeZone::posix(SHORT_REGIME).expect("posix zone"), iana: None });
    // a rule dated on the last day of February whose UTC instant lies on the
    // next day (22:00 at UTC-5): the UTC-side and the wall-clock-side
    // evaluations of a POSIX rule are separate code, and only one of them has
    // to carry Feb 28 into March (Feb 29 in leap years)
    v.push(Zn { name: format!("posix({})", FEB_CARRY), tz: TimeZone::posix(FEB_CARRY).expect("posix zone"), iana: None });
    v
}

const FEB_CARRY: &str = "EST5EDT,J59/22,J300";

const SHORT_REGIME: &str = "XXX0YYY-2,J100/0,J100/2:30";

/// Initial instants of a zone: epoch, `k` transitions within 1900..2040 each at
/// -1 ns, 0, +1 h, the range limits and the limits moved inward by three days,
/// and the zone's first offset change. Second component: instants entered at
/// depth 1 (so that they cost one level less): the same transitions at
/// -24 h -+ 15 min and +24 h -+ 15 min, i.e. the day before and the day after at
/// a clock time that lies inside the gap / fold on the transition day, from
/// which the navigation helpers and date setters land inside it.
fn init_instants(name: &str, k: usize) -> (Vec<i128>, Vec<i128>) {
    let mut seeds: Vec<i128> = vec![];
    let ts_min = Timestamp::MIN.as_nanosecond();
    let ts_max = Timestamp::MAX.as_nanosecond();
    let mut v: Vec<i128> = vec![0, ts_min + 3 * 86_400 * NS, ts_max - 3 * 86_400 * NS, ts_min, ts_max];
    let model = if let Some(p) = name.strip_prefix("posix(").and_then(|x| x.strip_suffix(')')) {
        rtz::zone_from_posix(p.as_bytes()).ok()
    } else {
        std::fs::read(format!("{}/{}", SYS, name)).ok().and_then(|bytes| rtz::zone_from_tzif(&bytes).ok())
    };
    {
        if let Some(m) = model {
            let lo = cal::days_from_civil(1900, 1, 1) * 86_400;
            let hi = cal::days_from_civil(2040, 1, 1) * 86_400;
            let all: Vec<i64> = m.changing().into_iter().map(|i| m.pieces[i].start).collect();
            // the zone's first offset change of all (usually local mean time,
            // with a sub-minute offset, to standard time; before 1900 for most zones)
            if let Some(first) = all.iter().copied().filter(|s| *s < lo && *s as i128 * NS > ts_min + 86_400 * NS).min() {
                let b = first as i128 * NS;
                v.extend([b - 1, b, b + 3_600 * NS]);
            }
            let ch: Vec<i64> = all.iter().copied().filter(|s| *s >= lo && *s < hi).collect();
            // k transitions spread evenly over the list, always including the
            // first and the last two
            let mut idx: Vec<usize> = vec![];
            if !ch.is_empty() {
                let n = ch.len();
                for j in 0..k.min(n) {
                    let i = if k <= 1 { 0 } else { j * (n - 1) / (k.min(n) - 1).max(1) };
                    if !idx.contains(&i) {
                        idx.push(i);
                    }
                }
                if n >= 2 && !idx.contains(&(n - 2)) {
                    idx.push(n - 2);
                }
            }
            for i in idx {
                let b = ch[i] as i128 * NS;
                v.extend([b - 1, b, b + 3_600 * NS]);
                let (day, q) = (86_400 * NS, 900 * NS);
                seeds.extend([b - day - q, b - day + q, b + day - q, b + day + q]);
            }
        }
    }
    seeds.retain(|x| !v.contains(x));
    (v, seeds)
}

struct RunStats {
    unique_states: u64,
    unique_values: u64,
    per_depth: Vec<u64>,
    max_depth: usize,
    wall: f64,
}

fn new_shared(r: &Arc<Report>, zones: Vec<Zn>, acts: Vec<Act>, bound: u8) -> Shared {
    let nacts = acts.len();
    Shared {
        r: r.clone(),
        zones,
        acts,
        bound,
        transitions: Ctr::new(),
        no_successor: Ctr::new(),
        produced: Ctr::new(),
        violating_values: Ctr::new(),
        values: (0..SHARDS).map(|_| Mutex::new(HashMap::new())).collect(),
        per_action_ok: (0..nacts).map(|_| AtomicU64::new(0)).collect(),
        per_action_err: (0..nacts).map(|_| AtomicU64::new(0)).collect(),
        per_action_offset_changed: (0..nacts).map(|_| AtomicU64::new(0)).collect(),
        system_tz: TimeZone::system(),
        probe_transitions: Ctr::new(),
        civil_inputs: [Ctr::new(), Ctr::new(), Ctr::new()],
        operator_overflow_panics: Ctr::new(),
        pairs: [Ctr::new(), Ctr::new()],
        accessor_fields_compared: Ctr::new(),
    }
}

#[allow(clippy::too_many_arguments)]
fn run_bfs(r: &Arc<Report>, label: &str, zone_names: &[&str], k: usize, bound: u8, core_only: bool, probes: Probes, cap_states: usize, timeout_s: u64) -> RunStats {
    let zones = load_zones(zone_names);
    let acts = build_actions(&zones, core_only, probes);
    let nacts = acts.len();
    let n_probes = acts.iter().filter(|a| a.probe.is_some()).count();
    let mut init: Vec<St> = vec![];
    let mut n_seeds = 0usize;
    for (zi, z) in zones.iter().enumerate() {
        let (at0, at1) = init_instants(&z.name, k);
        for ns in at0 {
            init.push(St { ns, zone: zi as u8, depth: 0 });
        }
        // the depth-1 seeds only serve the probes and the last two levels
        if !core_only {
            for ns in at1 {
                init.push(St { ns, zone: zi as u8, depth: 1 });
                n_seeds += 1;
            }
        }
    }
    let sh = Arc::new(new_shared(r, zones, acts, bound));
    // the initial values are themselves checked (constructed with Zoned::new)
    let init_act = Act { name: "Zoned::new".into(), sig: "Zoned::new".into(), op: Op::TimestampToZoned, probe: None };
    for s in &init {
        let z = Zoned::new(Timestamp::from_nanosecond(s.ns).unwrap(), sh.zones[s.zone as usize].tz.clone());
        sh.invariant(&z, None, s.ns, s.zone, &init_act, &WantZone::Idx(s.zone), true, "");
        sh.record_value(s.ns, s.zone, s.depth);
    }
    // Zoned::default() is the epoch in UTC
    if let Some(utc) = sh.zones.iter().position(|z| z.name == "UTC") {
        let act = Act { name: "Zoned::default".into(), sig: "Zoned::default".into(), op: Op::ZonedNew, probe: None };
        match guard(Zoned::default) {
            Ok(z) => {
                sh.invariant(&z, None, 0, utc as u8, &act, &WantZone::Idx(utc as u8), true, "");
            }
            Err(p) => r.viol("bfs", &format!("Zoned::default/{}", panic_sig(&p)), "Zoned::default()".to_string(), p),
        }
    }
    let n_init = init.len();
    let t0 = std::time::Instant::now();
    // the probes of the depth-0 states
    {
        let probe_ix: Vec<usize> = sh.acts.iter().enumerate().filter(|(_, a)| a.probe.is_some()).map(|(i, _)| i).collect();
        let at0: Vec<&St> = init.iter().filter(|s| s.depth == 0).collect();
        let nthreads = std::thread::available_parallelism().map(|n| n.get()).unwrap_or(16).min(16);
        std::thread::scope(|sc| {
            for t in 0..nthreads {
                let (sh, at0, probe_ix) = (&sh, &at0, &probe_ix);
                sc.spawn(move || {
                    for s in at0.iter().skip(t).step_by(nthreads) {
                        for &ai in probe_ix {
                            let got = sh.step(s.ns, s.zone, 0, ai);
                            debug_assert!(got.is_none());
                        }
                    }
                });
            }
        });
    }
    let model = ZModel { sh: sh.clone(), init };
    let threads = std::thread::available_parallelism().map(|n| n.get()).unwrap_or(16).min(16);
    let checker = model
        .checker()
        .threads(threads)
        .target_state_count(cap_states)
        .timeout(std::time::Duration::from_secs(timeout_s))
        .spawn_bfs()
        .join();
    let wall = t0.elapsed().as_secs_f64();
    let unique_states = checker.unique_state_count() as u64;
    let max_depth = checker.max_depth();
    let discoveries = checker.discoveries().len();
    drop(checker);

    let sh = Arc::try_unwrap(sh).ok().expect("checker released the model");
    let mut per_depth = vec![0u64; bound as usize + 1];
    let mut unique_values = 0u64;
    for m in &sh.values {
        for (_, d) in m.lock().unwrap().iter() {
            per_depth[*d as usize] += 1;
            unique_values += 1;
        }
    }
    let tr = sh.transitions.load(Relaxed);
    r.add_states(unique_states);
    r.add_transitions(tr);
    r.add_validated(sh.produced.load(Relaxed));
    r.count(&format!("{}:initial_states", label), n_init as u64);
    r.count(&format!("{}:initial_states_entered_at_depth_1", label), n_seeds as u64);
    r.count(&format!("{}:probes(non-expanding actions)", label), n_probes as u64);
    r.count(&format!("{}:probes_light_offered_in_this_many_levels(0..)", label), probes.l.map_or(0, |d| d as u64 + 1));
    r.count(&format!("{}:probes_heavy_offered_in_this_many_levels(0..)", label), probes.h.map_or(0, |d| d as u64 + 1));
    let ptr = sh.probe_transitions.load(Relaxed);
    r.count(&format!("{}:probe_transitions", label), ptr);
    r.count(&format!("{}:expanding_transitions", label), sh.transitions.load(Relaxed) - ptr);
    let civ: Vec<u64> = sh.civil_inputs.iter().map(|a| a.load(Relaxed)).collect();
    r.outcome(&format!("{}:civil_input:unambiguous", label), civ[0]);
    r.outcome(&format!("{}:civil_input:gap", label), civ[1]);
    r.outcome(&format!("{}:civil_input:fold", label), civ[2]);
    r.outcome(&format!("{}:operator_overflow_panics_excluded(checked twin is Err)", label), sh.operator_overflow_panics.load(Relaxed));
    r.count(&format!("{}:eq_ord_hash_pairs_same_instant", label), sh.pairs[0].load(Relaxed));
    r.count(&format!("{}:eq_ord_hash_pairs_different_instants", label), sh.pairs[1].load(Relaxed));
    r.count(&format!("{}:accessor_fields_compared_with_model", label), sh.accessor_fields_compared.load(Relaxed));
    let off_changed: u64 = sh.per_action_offset_changed.iter().map(|a| a.load(Relaxed)).sum();
    r.count(&format!("{}:values_whose_offset_differs_from_the_source_state", label), off_changed);
    // actions that can change the offset at all (everything but zone changes
    // to a zone with the same offset ...) should have done so somewhere
    let never_changed: Vec<&str> = sh
        .acts
        .iter()
        .enumerate()
        .filter(|(i, _)| sh.per_action_ok[*i].load(Relaxed) > 0 && sh.per_action_offset_changed[*i].load(Relaxed) == 0)
        .map(|(_, a)| a.name.as_str())
        .collect();
    r.count(&format!("{}:actions_that_never_changed_the_offset", label), never_changed.len() as u64);
    if !never_changed.is_empty() {
        r.note(format!("{}: actions whose value never had another offset than the source state: {}", label, never_changed.join(", ")));
    }
    if n_probes > 0 {
        r.require(civ[1] > 0 && civ[2] > 0, "civil-datetime producers were fed datetimes inside gaps and inside folds");
        r.require(sh.pairs[1].load(Relaxed) > 0, "Eq/Ord/Hash were compared on pairs of different instants");
    }
    r.count(&format!("{}:zones", label), sh.zones.len() as u64);
    r.count(&format!("{}:actions", label), nacts as u64);
    r.count(&format!("{}:depth_bound", label), bound as u64);
    r.count(&format!("{}:unique_states(instant,zone,depth)", label), unique_states);
    r.count(&format!("{}:unique_values(instant,zone)", label), unique_values);
    r.count(&format!("{}:transitions", label), tr);
    r.count(&format!("{}:operations_returning_err(no successor)", label), sh.no_successor.load(Relaxed));
    r.count(&format!("{}:values_invariant_checked", label), sh.produced.load(Relaxed));
    r.count(&format!("{}:values_violating(not expanded)", label), sh.violating_values.load(Relaxed));
    r.count(&format!("{}:checker_max_depth(stateright counts the initial level as 1)", label), max_depth as u64);
    for (d, n) in per_depth.iter().enumerate() {
        r.count(&format!("{}:new_values_first_reached_at_depth_{}", label, d), *n);
    }
    let never_ok: Vec<&str> = sh.acts.iter().enumerate().filter(|(i, _)| sh.per_action_ok[*i].load(Relaxed) == 0).map(|(_, a)| a.name.as_str()).collect();
    r.count(&format!("{}:actions_that_never_succeeded", label), never_ok.len() as u64);
    if !never_ok.is_empty() {
        r.note(format!("{}: actions that never produced a value: {}", label, never_ok.join(", ")));
    }
    let mut fam: std::collections::BTreeMap<String, (u64, u64)> = Default::default();
    for (i, a) in sh.acts.iter().enumerate() {
        let f = a.name.trim_start_matches('(').split(|c: char| c == '(' || c == '.').next().unwrap_or("").to_string();
        let e = fam.entry(f).or_insert((0, 0));
        e.0 += sh.per_action_ok[i].load(Relaxed);
        e.1 += sh.per_action_err[i].load(Relaxed);
    }
    for (f, (ok, err)) in fam {
        r.outcome(&format!("{}:{}:ok", label, f), ok);
        r.outcome(&format!("{}:{}:err", label, f), err);
    }
    let never_err = sh.acts.iter().enumerate().filter(|(i, _)| sh.per_action_err[*i].load(Relaxed) == 0).count();
    r.count(&format!("{}:actions_that_never_failed", label), never_err as u64);
    // a probe with a shifted civil input may legitimately never succeed (a
    // wrong offset under `reject`, ...): non-vacuity is required of every
    // expanding action and of every probe signature (= all shifts together)
    let mut sig_ok: std::collections::BTreeMap<&str, (u64, bool)> = Default::default();
    for (i, a) in sh.acts.iter().enumerate() {
        let e = sig_ok.entry(a.sig.as_str()).or_insert((0, a.probe.is_some()));
        e.0 += sh.per_action_ok[i].load(Relaxed);
    }
    let sig_never_ok: Vec<&str> = sig_ok.iter().filter(|(_, (n, _))| *n == 0).map(|(s, _)| *s).collect();
    r.count(&format!("{}:signatures(operations)", label), sig_ok.len() as u64);
    r.count(&format!("{}:signatures_that_never_succeeded", label), sig_never_ok.len() as u64);
    if !sig_never_ok.is_empty() {
        r.note(format!("{}: operations that never produced a value: {}", label, sig_never_ok.join(", ")));
    }
    r.require(sig_never_ok.is_empty(), "every action produced a value somewhere");
    r.require(discoveries == 0, "the exploration property has no discovery");
    let capped_states = unique_states as usize >= cap_states;
    let capped_time = wall >= timeout_s as f64;
    if capped_states {
        r.cap(format!("{}: state cap {} reached - the bounded space was NOT exhausted", label, cap_states));
    }
    if capped_time {
        r.cap(format!("{}: timeout {} s reached - the bounded space was NOT exhausted", label, timeout_s));
    }
    let exhausted = !capped_states && !capped_time;
    r.count(&format!("{}:frontier_exhausted_within_bound", label), exhausted as u64);
    let fix = exhausted && per_depth[bound as usize] == 0;
    r.count(&format!("{}:fix_point_reached", label), fix as u64);
    r.sample(json!({
        "run": label, "zones": sh.zones.iter().map(|z| z.name.clone()).collect::<Vec<_>>(),
        "actions": sh.acts.iter().map(|a| a.name.clone()).collect::<Vec<_>>(),
        "depth_bound": bound, "initial_states": n_init, "unique_states": unique_states, "unique_values": unique_values,
        "transitions": tr, "new_values_per_depth": per_depth, "wall_s": wall, "exhausted": exhausted,
    }));
    eprintln!(
        "[C13] {}: init {} zones {} actions {} bound {} -> states {} values {} transitions {} in {:.1}s (exhausted: {})",
        label, n_init, sh.zones.len(), nacts, bound, unique_states, unique_values, tr, wall, exhausted
    );
    RunStats { unique_states, unique_values, per_depth, max_depth, wall }
}

const QUICK_ZONES: &[&str] =
    &["America/New_York", "Europe/London", "Australia/Lord_Howe", "Africa/Monrovia", "Pacific/Apia", "America/Sao_Paulo", "Africa/Casablanca", "UTC"];
const REP: &[&str] = &[
    "America/New_York",
    "Europe/London",
    "Europe/Dublin",
    "Europe/Berlin",
    "Australia/Lord_Howe",
    "Pacific/Apia",
    "Pacific/Kiritimati",
    "Africa/Monrovia",
    "Asia/Kathmandu",
    "America/St_Johns",
    "Antarctica/Troll",
    "Africa/Casablanca",
    "America/Sao_Paulo",
    "Asia/Tehran",
    "America/Caracas",
    "Pacific/Honolulu",
    "Australia/Sydney",
    "UTC",
];

/// Replay of one transition: `zone=<name> ts=<ns> action=<name>`.
fn replay(r: Arc<Report>, case: &str) -> ! {
    let get = |key: &str| -> Option<String> {
        let i = case.find(key)? + key.len();
        let rest = &case[i..];
        Some(match key {
            "action=" => rest.to_string(),
            _ => rest.split(' ').next().unwrap_or("").to_string(),
        })
    };
    let (Some(zone), Some(ts), Some(action)) = (get("zone="), get("ts="), get("action=")) else {
        eprintln!("cannot parse case {:?}", case);
        std::process::exit(2);
    };
    let thorough = r.thorough();
    let zones = load_zones(if thorough { REP } else { QUICK_ZONES });
    let acts = build_actions(&zones, false, Probes { l: Some(0), h: Some(0) });
    let sh = new_shared(&r, zones, acts, 1);
    let zi = sh.zones.iter().position(|z| z.name == zone);
    let ai = sh.acts.iter().position(|a| a.name == action);
    let ns: Option<i128> = ts.parse().ok();
    match (zi, ai, ns) {
        (Some(zi), Some(ai), Some(ns)) => {
            let z = Zoned::new(Timestamp::from_nanosecond(ns).unwrap(), sh.zones[zi].tz.clone());
            println!("state: {:?}", z);
            match sh.exec(&z, zi as u8, &sh.acts[ai].op) {
                Ok(Some(Out { v, .. })) => println!("{} -> {:?}\n  timestamp {} offset {:?} datetime {} | to_offset {:?} to_datetime {}", action, v, v.timestamp().as_nanosecond(), v.offset(), v.datetime(), v.time_zone().to_offset(v.timestamp()), v.offset().to_datetime(v.timestamp())),
                Ok(None) => println!("{} -> Err (no successor)", action),
                Err(p) => println!("{} -> PANIC {}", action, p),
            }
            sh.step(ns, zi as u8, 0, ai);
        }
        _ => {
            eprintln!("unknown zone/action/instant in case {:?} (tier {})", case, if thorough { "thorough" } else { "quick" });
        }
    }
    drop(sh);
    finish(r)
}

fn finish(r: Arc<Report>) -> ! {
    match Arc::try_unwrap(r) {
        Ok(r) => r.finish(),
        Err(_) => panic!("report still shared"),
    }
}

/// development knob: C13_K overrides the number of transitions per zone
fn envk(default: usize) -> usize {
    std::env::var("C13_K").ok().and_then(|v| v.parse().ok()).unwrap_or(default)
}

/// development knob: C13_L / C13_H override the probe depths (-1 = off)
fn envd(name: &str, default: Option<u8>) -> Option<u8> {
    match std::env::var(name).ok().and_then(|v| v.parse::<i32>().ok()) {
        Some(v) if v < 0 => None,
        Some(v) => Some(v as u8),
        None => default,
    }
}

/// The zone `TimeZone::system()` is made to be (for `Zoned::try_from(SystemTime)`).
const SYSTEM_TZ: &str = "America/New_York";

fn main() {
    // before any thread exists and before jiff looks at the environment
    std::env::set_var("TZ", SYSTEM_TZ);
    let r = Arc::new(Report::from_args("C13"));
    r.require(TimeZone::system().iana_name() == Some(SYSTEM_TZ), "TimeZone::system() is the zone named by TZ");
    if let Some(case) = r.only_case.clone() {
        replay(r, &case);
    }
    if r.quick() {
        // depth 3, seven named zones + a fixed offset, full action set
        r.section("bfs", || {
            let st = run_bfs(&r, "quick", QUICK_ZONES, envk(30), 3, false, Probes { l: envd("C13_L", Some(1)), h: envd("C13_H", Some(1)) }, 120_000_000, 100);
            r.require(st.unique_values > 10_000 && st.per_depth[3] > 0, "the search reached depth 3 with > 10^4 distinct values");
            let _ = (st.unique_states, st.max_depth, st.wall);
        });
    } else {
        // (a) wide: every representative zone, full action set, depth 3
        r.section("bfs-wide", || {
            // the light probes in every expanded state (release build); the
            // debug-assertion build, which runs the same tier, stops one level
            // earlier (its purpose is jiff's internal range assertions)
            let l = if cfg!(debug_assertions) { 1 } else { 2 };
            let a = run_bfs(&r, "wide", REP, envk(40), 3, false, Probes { l: envd("C13_L", Some(l)), h: envd("C13_H", Some(1)) }, 400_000_000, 1500);
            r.require(a.per_depth[3] > 0, "the wide search reached its depth bound");
        });
        // (b) deep, full action set: the quick zones, depth 4
        r.section("bfs-deep4", || {
            let b = run_bfs(&r, "deep4", QUICK_ZONES, envk(4), 4, false, Probes { l: envd("C13_L", Some(2)), h: envd("C13_H", Some(1)) }, 400_000_000, 1500);
            r.require(b.per_depth[4] > 0, "the depth-4 search reached its depth bound");
        });
        // (c) deeper, core action subset: the quick zones, depth 7
        r.section("bfs-deep7-core", || {
            let b = run_bfs(&r, "deep7-core", QUICK_ZONES, envk(4), 7, true, Probes { l: None, h: None }, 400_000_000, 1500);
            r.require(b.per_depth[7] > 0, "the depth-7 search reached its depth bound");
        });
    }
    finish(r)
}
