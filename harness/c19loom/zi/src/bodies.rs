//! Harness bodies run under `loom::model` against the real database code.

use alloc::collections::BTreeMap;
use alloc::format;
use alloc::string::{String, ToString};
use alloc::vec;
use alloc::vec::Vec;
use std::path::{Path, PathBuf};
use std::realsync::atomic::{AtomicU64, Ordering};
use std::realsync::Mutex as RealMutex;

use crate::tz::db::concatenated::enabled::Database as CatDb;
use crate::tz::db::zoneinfo::enabled::Database as DirDb;

pub const NAMES: [&str; 3] = ["a/Aaa", "Bbb", "Ccc"];

pub struct BodyResult {
    pub executions: u64,
    pub outcomes: BTreeMap<String, u64>,
    pub violations: Vec<(String, String, String)>,
    pub completed: bool,
}

static EXECS: AtomicU64 = AtomicU64::new(0);
static OUTCOMES: RealMutex<BTreeMap<String, u64>> = RealMutex::new(BTreeMap::new());
static VIOLS: RealMutex<Vec<(String, String, String)>> = RealMutex::new(Vec::new());

fn viol(sig: &str, case: String, detail: String) {
    let mut v = VIOLS.lock().unwrap();
    if v.len() < 64 {
        v.push((sig.to_string(), case, detail));
    }
}

pub fn tiny_tzif(utoff: i32, abbr: &str) -> Vec<u8> {
    let block = |v: u8| -> Vec<u8> {
        let mut b = vec![];
        b.extend_from_slice(b"TZif");
        b.push(v);
        b.extend_from_slice(&[0u8; 15]);
        for n in [0u32, 0, 0, 0, 1, abbr.len() as u32 + 1] {
            b.extend_from_slice(&n.to_be_bytes());
        }
        b.extend_from_slice(&utoff.to_be_bytes());
        b.push(0);
        b.push(0);
        b.extend_from_slice(abbr.as_bytes());
        b.push(0);
        b
    };
    let mut out = block(b'2');
    out.extend(block(b'2'));
    let p = -utoff;
    let sign = if p < 0 { "-" } else { "" };
    let a = p.abs();
    let off = if a % 3600 == 0 { format!("{}{}", sign, a / 3600) } else { format!("{}{}:{:02}", sign, a / 3600, (a % 3600) / 60) };
    out.extend_from_slice(format!("\n{}{}\n", abbr, off).as_bytes());
    out
}

pub fn utoff_of(name: usize, version: u8) -> i32 {
    (name as i32 * 2 + version as i32) * 3600 + 1800
}

fn write_file(path: &Path, bytes: &[u8], mtime_s: u64) {
    if let Some(p) = path.parent() {
        std::fs::create_dir_all(p).unwrap();
    }
    let tmp = path.with_extension("tmp~");
    std::fs::write(&tmp, bytes).unwrap();
    let f = std::fs::File::options().write(true).open(&tmp).unwrap();
    f.set_modified(std::time::SystemTime::UNIX_EPOCH + std::time::Duration::from_secs(mtime_s)).unwrap();
    drop(f);
    std::fs::rename(&tmp, path).unwrap();
}

fn zone_bytes(n: usize, v: u8) -> Vec<u8> {
    tiny_tzif(utoff_of(n, v), ["AAA", "BBB", "CCC"][n])
}

/// (Re)create the zoneinfo directory: all three zones, given versions, one
/// common mtime (so that nothing but the name distinguishes entries).
pub fn setup_dir(root: &Path, versions: [u8; 3], mtime_s: u64) {
    for n in 0..3 {
        if versions[n] == 0 {
            let _ = std::fs::remove_file(root.join(NAMES[n]));
        } else {
            write_file(&root.join(NAMES[n]), &zone_bytes(n, versions[n]), mtime_s);
        }
    }
}

pub fn setup_concat(path: &Path, versions: [u8; 3], mtime_s: u64) {
    let mut index = vec![];
    let mut data = vec![];
    for k in 0..3 {
        if versions[k] == 0 {
            continue;
        }
        let bytes = zone_bytes(k, versions[k]);
        let mut e = [0u8; 52];
        e[..NAMES[k].len()].copy_from_slice(NAMES[k].as_bytes());
        e[40..44].copy_from_slice(&(data.len() as u32).to_be_bytes());
        e[44..48].copy_from_slice(&(bytes.len() as u32).to_be_bytes());
        index.extend_from_slice(&e);
        data.extend_from_slice(&bytes);
    }
    let mut out = vec![];
    out.extend_from_slice(b"tzdata2025b\0");
    let io = 24u32;
    let dof = io + index.len() as u32;
    out.extend_from_slice(&io.to_be_bytes());
    out.extend_from_slice(&dof.to_be_bytes());
    out.extend_from_slice(&(dof + data.len() as u32).to_be_bytes());
    out.extend_from_slice(&index);
    out.extend_from_slice(&data);
    write_file(path, &out, mtime_s);
}

/// What a lookup returned: None, or (offset at the epoch, iana name).
type Obs = Option<(i32, Option<String>)>;

fn observe(tz: Option<crate::tz::TimeZone>) -> Obs {
    tz.map(|t| (t.0.to_offset(jiff::Timestamp::UNIX_EPOCH).seconds(), t.0.iana_name().map(|s| s.to_string())))
}

/// The two back-ends behind one interface.
pub enum Db {
    Dir(DirDb),
    Cat(CatDb),
}
impl Db {
    fn get(&self, q: &str) -> Obs {
        match self {
            Db::Dir(d) => observe(d.get(q)),
            Db::Cat(d) => observe(d.get(q)),
        }
    }
    fn get_raw(&self, q: &str) -> Option<crate::tz::TimeZone> {
        match self {
            Db::Dir(d) => d.get(q),
            Db::Cat(d) => d.get(q),
        }
    }
    fn reset(&self) {
        match self {
            Db::Dir(d) => d.reset(),
            Db::Cat(d) => d.reset(),
        }
    }
    fn available(&self) -> Vec<String> {
        let mut v = match self {
            Db::Dir(d) => d.available().names,
            Db::Cat(d) => d.available().names,
        };
        v.sort();
        v
    }
}

#[derive(Clone, Copy, PartialEq, Eq, Debug)]
pub enum Backend {
    Dir,
    Cat,
}

fn open(backend: Backend, root: &Path) -> Db {
    match backend {
        Backend::Dir => Db::Dir(DirDb::from_dir(root).expect("from_dir")),
        Backend::Cat => Db::Cat(CatDb::from_path(&root.join("tzdata")).expect("from_path")),
    }
}

/// Expected observation for query `q` given the versions on disk.
fn check(body: &str, q: &str, got: &Obs, versions: [u8; 3]) {
    check_any(body, q, got, versions, versions)
}

/// Like `check`, with two admissible disk states per name (before / after a
/// concurrent or not-yet-noticed replacement); version 0 is "absent".
fn check_any(body: &str, q: &str, got: &Obs, va: [u8; 3], vb: [u8; 3]) {
    let idx = NAMES.iter().position(|n| n.eq_ignore_ascii_case(q));
    let case = format!("{} get({:?})", body, q);
    match (idx, got) {
        (None, None) => {}
        (None, Some(g)) => viol("loom/unknown-name-found", case, format!("{:?}", g)),
        (Some(n), None) => {
            if va[n] != 0 && vb[n] != 0 {
                viol("loom/known-name-not-found", case, "None".to_string())
            }
        }
        (Some(n), Some((off, name))) => {
            let ok = (va[n] != 0 && *off == utoff_of(n, va[n])) || (vb[n] != 0 && *off == utoff_of(n, vb[n]));
            if !ok {
                let whose = (0..3).find(|&k| (1..=2).any(|v| utoff_of(k, v) == *off));
                let sig = match whose {
                    Some(k) if k != n => "loom/returns-another-zones-data",
                    Some(_) => "loom/returns-superseded-version",
                    None => "loom/returns-unknown-data",
                };
                viol(sig, case, format!("offset {} name {:?}; expected {} v{} or v{}", off, name, NAMES[n], va[n], vb[n]));
            } else if name.as_deref() != Some(NAMES[n]) {
                viol("loom/not-canonical-spelling", case, format!("{:?}", name));
            }
        }
    }
}

fn check_available(body: &str, got: &[String], va: [u8; 3], vb: [u8; 3]) {
    let case = format!("{} available()", body);
    for n in 0..3 {
        let listed = got.iter().any(|x| x == NAMES[n]);
        if listed && va[n] == 0 && vb[n] == 0 {
            viol("loom/available-lists-absent-name", case.clone(), format!("{:?}", got));
        }
        if !listed && va[n] != 0 && vb[n] != 0 {
            viol("loom/available-misses-name", case.clone(), format!("{:?}", got));
        }
    }
    if got.iter().any(|x| !NAMES.contains(&x.as_str())) {
        viol("loom/available-lists-unknown-name", case, format!("{:?}", got));
    }
}

pub struct Body {
    pub name: &'static str,
    /// queries issued before the threads start (warm-up), and whether the TTL elapses afterwards
    pub warm: &'static [&'static str],
    pub expire: bool,
    /// replace this zone by version 2 after warm-up; the second component is the
    /// modification time of the replacement (newer or OLDER than the original's
    /// 1_600_000_000: a restored backup, `cp -p`, a tzdata downgrade)
    pub replace: Option<(usize, u64)>,
    /// what a "!write" token does while the threads run: replace this zone by
    /// version 2 (or remove it, version 0) with this modification time
    pub writer: Option<(usize, u8, u64)>,
    /// per-thread scripts: a query, "!reset", "!avail" (list the names),
    /// "!hold:<query>" (look up, let the others run, then use the value) or
    /// "!write" (the disk change of `writer`)
    pub threads: &'static [&'static [&'static str]],
}

pub const BODIES: &[Body] = &[
    Body { name: "H1-cold-distinct", warm: &[], expire: false, replace: None, writer: None, threads: &[&["Bbb"], &["a/Aaa"]] },
    Body { name: "H1b-cold-distinct-3", warm: &[], expire: false, replace: None, writer: None, threads: &[&["Bbb"], &["a/Aaa"], &["Ccc"]] },
    Body { name: "H2-cold-same-name-case", warm: &[], expire: false, replace: None, writer: None, threads: &[&["Bbb"], &["bbb"]] },
    Body { name: "H3-expired-plus-insert", warm: &["a/Aaa", "Ccc"], expire: true, replace: None, writer: None, threads: &[&["ccc"], &["BBB"]] },
    Body { name: "H3b-expired-all", warm: &["a/Aaa", "Bbb", "Ccc"], expire: true, replace: None, writer: None, threads: &[&["CCC"], &["A/AAA"], &["bbb"]] },
    Body { name: "H4-reset-vs-get", warm: &["Bbb"], expire: false, replace: None, writer: None, threads: &[&["!reset"], &["Bbb"], &["ccc"]] },
    Body { name: "H5-unknown-vs-known", warm: &[], expire: true, replace: None, writer: None, threads: &[&["No/Such"], &["Bbb"], &["a/aaa"]] },
    Body { name: "H6-replaced-then-expired", warm: &["Bbb", "Ccc"], expire: true, replace: Some((1, 1_600_000_777)), writer: None, threads: &[&["Bbb"], &["BBB"]] },
    Body { name: "H6b-replaced-by-older-file-then-expired", warm: &["Bbb", "Ccc"], expire: true, replace: Some((1, 1_500_000_000)), writer: None, threads: &[&["Bbb"], &["BBB"]] },
    // a third thread inserts between two cached names while they are being read
    Body { name: "H8-insert-middle-vs-readers", warm: &["a/Aaa", "Ccc"], expire: false, replace: None, writer: None, threads: &[&["BBB"], &["ccc"], &["a/aaa"]] },
    // available() takes the name index write lock (and re-walks the directory: the index is stale) while lookups run
    Body { name: "H9-available-vs-gets-expired", warm: &["Bbb"], expire: true, replace: None, writer: None, threads: &[&["!avail"], &["Bbb"], &["ccc"]] },
    Body { name: "H10-available-vs-reset-vs-get", warm: &["Bbb"], expire: false, replace: None, writer: None, threads: &[&["!avail"], &["!reset"], &["bbb"]] },
    // a reader holds a value while the entry it came from is dropped by reset() and reloaded from a replaced file
    Body { name: "H11-hold-vs-reset-and-reload", warm: &["Bbb"], expire: false, replace: Some((1, 1_600_000_777)), writer: None, threads: &[&["!hold:Bbb"], &["!reset", "BBB"]] },
    Body { name: "H11b-hold-vs-expiry-reload", warm: &["Bbb"], expire: true, replace: Some((1, 1_600_000_777)), writer: None, threads: &[&["!hold:Bbb"], &["BBB"], &["!hold:bbb"]] },
    // the file is replaced / removed while expired entries are being revalidated
    Body { name: "H12-writer-vs-getters", warm: &["Bbb", "Ccc"], expire: true, replace: None, writer: Some((1, 2, 1_600_000_777)), threads: &[&["!write"], &["Bbb"], &["bbb"]] },
    Body { name: "H12b-writer-older-file-vs-getters", warm: &["Bbb", "Ccc"], expire: true, replace: None, writer: Some((1, 2, 1_500_000_000)), threads: &[&["!write"], &["Bbb"], &["bbb"]] },
    Body { name: "H13-remover-vs-getters", warm: &["Bbb"], expire: true, replace: None, writer: Some((1, 0, 1_600_000_777)), threads: &[&["!write"], &["Bbb"], &["ccc"]] },
    Body { name: "H14-writer-vs-cold-getters", warm: &[], expire: false, replace: None, writer: Some((1, 2, 1_600_000_777)), threads: &[&["!write"], &["Bbb"], &["bbb"]] },
    Body { name: "H7-two-ops-each", warm: &["Ccc"], expire: true, replace: None, writer: None, threads: &[&["Bbb", "ccc"], &["CCC", "a/Aaa"]] },
];

/// Run one body under loom with the given preemption bound.
pub fn run(body: &Body, backend: Backend, bound: usize, root: PathBuf, max_threads: usize) -> BodyResult {
    EXECS.store(0, Ordering::SeqCst);
    OUTCOMES.lock().unwrap().clear();
    VIOLS.lock().unwrap().clear();
    let threads: Vec<&'static [&'static str]> = body.threads.iter().take(max_threads).copied().collect();
    let name = format!("{:?}/{}", backend, body.name);
    let (warm, expire, replace, writer) = (body.warm, body.expire, body.replace, body.writer);
    let nm = name.clone();
    let model = move || {
        EXECS.fetch_add(1, Ordering::SeqCst);
        crate::now::set_offset_secs(0);
        let mut versions = [1u8; 3];
        match backend {
            Backend::Dir => setup_dir(&root, versions, 1_600_000_000),
            Backend::Cat => setup_concat(&root.join("tzdata"), versions, 1_600_000_000),
        }
        let db = std::sync::Arc::new(open(backend, &root));
        for q in warm {
            let got = db.get(q);
            check(&nm, q, &got, versions);
        }
        let before = versions;
        if let Some((n, mtime)) = replace {
            versions[n] = 2;
            match backend {
                Backend::Dir => setup_dir(&root, versions, mtime),
                Backend::Cat => setup_concat(&root.join("tzdata"), versions, mtime),
            }
        }
        if expire {
            crate::now::set_offset_secs(301);
        }
        // what the lookups of the threads may see: the disk as it is now, or,
        // while an entry cached before a replacement has not expired, the
        // disk as it was; with a writer thread, the disk as it will be
        let cur = versions;
        let mut after = versions;
        if let Some((n, v, _)) = writer {
            after[n] = v;
        }
        let lenient_a = if expire { cur } else { before };
        let mut hs = vec![];
        for script in threads.iter().copied() {
            let db = db.clone();
            let nm = nm.clone();
            let root = root.clone();
            hs.push(loom::thread::spawn(move || {
                let mut obs: Vec<String> = vec![];
                let mut did_reset = false;
                for q in script {
                    // after this thread's own reset() nothing cached earlier may answer
                    let va = if did_reset { cur } else { lenient_a };
                    if *q == "!reset" {
                        db.reset();
                        did_reset = true;
                        obs.push("reset".to_string());
                    } else if *q == "!avail" {
                        let got = db.available();
                        check_available(&nm, &got, cur, after);
                        obs.push(format!("avail={}", got.len()));
                    } else if *q == "!write" {
                        let (n, _, mtime) = writer.expect("writer");
                        let _ = n;
                        match backend {
                            Backend::Dir => setup_dir(&root, after, mtime),
                            Backend::Cat => setup_concat(&root.join("tzdata"), after, mtime),
                        }
                        obs.push("write".to_string());
                    } else if let Some(q) = q.strip_prefix("!hold:") {
                        let tz = db.get_raw(q);
                        let o1 = observe(tz.clone());
                        check_any(&nm, q, &o1, va, after);
                        // let the other threads replace / drop the entry
                        loom::thread::yield_now();
                        let o2 = observe(tz.clone());
                        if o1 != o2 {
                            viol("loom/held-value-changed", format!("{} hold({:?})", nm, q), format!("{:?} then {:?}", o1, o2));
                        }
                        if let Some(t) = &tz {
                            // a complete zone: usable far from the probe instant, too
                            let far = jiff::Timestamp::from_second(4_000_000_000).unwrap();
                            if t.0.to_offset(far).seconds() != o1.as_ref().unwrap().0 {
                                viol("loom/held-value-incomplete", format!("{} hold({:?})", nm, q), format!("{:?}", o1));
                            }
                        }
                        drop(tz);
                        obs.push(format!("hold {}={:?}", q, o1.as_ref().map(|g| g.0)));
                    } else {
                        let got = db.get(q);
                        check_any(&nm, q, &got, va, after);
                        obs.push(format!("{}={:?}", q, got.as_ref().map(|g| g.0)));
                    }
                }
                obs.join(",")
            }));
        }
        let mut outcome = vec![];
        for h in hs {
            outcome.push(h.join().unwrap());
        }
        // afterwards every name still resolves to the right zone
        for q in NAMES {
            let got = db.get(q);
            check_any(&nm, q, &got, if writer.is_some() || !expire { lenient_a } else { after }, after);
        }
        let got = db.available();
        check_available(&nm, &got, cur, after);
        if writer.is_some() || replace.is_some() {
            // "Subsequent interactions with this database will need to
            // re-read time zone data from disk."
            db.reset();
            for q in NAMES {
                let got = db.get(q);
                check(&format!("{} after-reset", nm), q, &got, after);
            }
            let got = db.available();
            check_available(&format!("{} after-reset", nm), &got, after, after);
        }
        *OUTCOMES.lock().unwrap().entry(outcome.join(" | ")).or_insert(0) += 1;
    };
    let mut b = loom::model::Builder::new();
    b.preemption_bound = Some(bound);
    b.max_branches = 100_000;
    let res = std::panic::catch_unwind(std::panic::AssertUnwindSafe(|| b.check(model)));
    let completed = res.is_ok();
    if let Err(e) = res {
        let msg = if let Some(s) = e.downcast_ref::<&str>() {
            s.to_string()
        } else if let Some(s) = e.downcast_ref::<String>() {
            s.clone()
        } else {
            "<panic>".to_string()
        };
        let sig = if msg.contains("deadlock") { "loom/deadlock" } else { "loom/panic" };
        viol(sig, name.clone(), msg);
    }
    BodyResult {
        executions: EXECS.load(Ordering::SeqCst),
        outcomes: OUTCOMES.lock().unwrap().clone(),
        violations: VIOLS.lock().unwrap().clone(),
        completed,
    }
}
