//! C19 (concurrency part, engine E3): the *unmodified* jiff sources
//! `src/tz/db/zoneinfo/enabled.rs` and `src/tz/db/concatenated/enabled.rs`
//! (plus the helpers they use) compiled against loom: this crate is `no_std`
//! and names `shimstd` as `std`, so `std::sync::{Arc, RwLock}` in those files
//! are loom's and every lock operation is a scheduling point.
//!
//! Everything else those files import from the jiff crate is supplied here by
//! small stand-ins. `TimeZone` is a new-type around the real
//! `jiff::tz::TimeZone` (parsed by the real TZif parser).
#![no_std]
#![allow(dead_code, unused_macros, unused_imports)]

extern crate alloc;
extern crate shimstd as std;

// logging macros: must expand to nothing (their arguments reference items
// that exist only in the real crate)
macro_rules! trace {
    ($($tt:tt)*) => {
        ()
    };
}
macro_rules! debug {
    ($($tt:tt)*) => {
        ()
    };
}
macro_rules! warn {
    ($($tt:tt)*) => {
        ()
    };
}
macro_rules! info {
    ($($tt:tt)*) => {
        ()
    };
}

pub(crate) mod error {
    use alloc::string::{String, ToString};

    #[derive(Clone, Debug)]
    pub struct Error {
        msg: String,
    }

    macro_rules! err {
        ($($tt:tt)*) => {{
            crate::error::Error::adhoc_from_args(format_args!($($tt)*))
        }}
    }
    pub(crate) use err;

    impl Error {
        pub(crate) fn adhoc<'a>(message: impl core::fmt::Display + 'a) -> Error {
            Error { msg: message.to_string() }
        }
        pub(crate) fn adhoc_from_args<'a>(message: core::fmt::Arguments<'a>) -> Error {
            Error { msg: message.to_string() }
        }
        pub(crate) fn io(err: std::io::Error) -> Error {
            Error { msg: err.to_string() }
        }
        pub(crate) fn path(self, path: impl Into<std::path::PathBuf>) -> Error {
            Error { msg: alloc::format!("{}: {}", path.into().display(), self.msg) }
        }
        pub(crate) fn real(e: jiff::Error) -> Error {
            Error { msg: e.to_string() }
        }
    }
    impl core::fmt::Display for Error {
        fn fmt(&self, f: &mut core::fmt::Formatter) -> core::fmt::Result {
            f.write_str(&self.msg)
        }
    }

    pub(crate) trait IntoError {
        fn into_error(self) -> Error;
    }
    impl IntoError for Error {
        fn into_error(self) -> Error {
            self
        }
    }
    impl IntoError for &'static str {
        fn into_error(self) -> Error {
            Error::adhoc(self)
        }
    }
    impl IntoError for String {
        fn into_error(self) -> Error {
            Error::adhoc(self)
        }
    }

    pub(crate) trait ErrorContext {
        fn context(self, consequent: impl IntoError) -> Self;
        fn with_context<E: IntoError>(self, consequent: impl FnOnce() -> E) -> Self;
    }
    impl ErrorContext for Error {
        fn context(self, consequent: impl IntoError) -> Error {
            Error { msg: alloc::format!("{}: {}", consequent.into_error().msg, self.msg) }
        }
        fn with_context<E: IntoError>(self, consequent: impl FnOnce() -> E) -> Error {
            self.context(consequent())
        }
    }
    impl<T> ErrorContext for Result<T, Error> {
        fn context(self, consequent: impl IntoError) -> Result<T, Error> {
            self.map_err(|e| e.context(consequent))
        }
        fn with_context<E: IntoError>(self, consequent: impl FnOnce() -> E) -> Result<T, Error> {
            self.map_err(|e| e.with_context(consequent))
        }
    }
}

pub(crate) use jiff::Timestamp;
pub(crate) mod timestamp {
    pub(crate) use jiff::Timestamp;
}

/// The harness-owned monotonic clock (what `--cfg jiff_verif` provides in the
/// real crate): a fixed base plus an offset only the harness moves.
pub(crate) mod now {
    use std::realsync::atomic::{AtomicU64, Ordering};
    use std::realsync::OnceLock;
    static BASE: OnceLock<std::time::Instant> = OnceLock::new();
    static OFFSET_MS: AtomicU64 = AtomicU64::new(0);
    pub(crate) fn monotonic_time() -> Option<std::time::Instant> {
        let base = *BASE.get_or_init(std::time::Instant::now);
        Some(base + std::time::Duration::from_millis(OFFSET_MS.load(Ordering::SeqCst)))
    }
    pub fn set_offset_secs(s: u64) {
        OFFSET_MS.store(s * 1000, Ordering::SeqCst);
    }
}

pub(crate) mod shared {
    pub(crate) mod util {
        #[path = "/repo/src/shared/util/utf8.rs"]
        pub(crate) mod utf8;
        #[path = "/repo/src/shared/util/escape.rs"]
        pub(crate) mod escape;
        #[path = "/repo/src/shared/util/array_str.rs"]
        pub(crate) mod array_str;
    }
}

pub(crate) mod util {
    #[path = "/repo/src/util/cache.rs"]
    pub(crate) mod cache;
    #[path = "/repo/src/util/fs.rs"]
    pub(crate) mod fs;
    #[path = "/repo/src/util/utf8.rs"]
    pub(crate) mod utf8;
    #[path = "/repo/src/util/escape.rs"]
    pub(crate) mod escape;
    #[path = "/repo/src/util/array_str.rs"]
    pub(crate) mod array_str;
    pub(crate) mod parse {
        use crate::error::{err, Error};
        /// Stand-in for `util::parse::os_str_utf8`.
        pub(crate) fn os_str_utf8<'o, O>(os_str: &'o O) -> Result<&'o str, Error>
        where
            O: ?Sized + AsRef<std::ffi::OsStr>,
        {
            os_str.as_ref().to_str().ok_or_else(|| err!("not valid UTF-8"))
        }
    }
}

pub(crate) mod tz {
    use alloc::string::String;
    use alloc::vec::Vec;

    /// New-type around the real `TimeZone`.
    #[derive(Clone, Debug)]
    pub struct TimeZone(pub jiff::tz::TimeZone);

    impl TimeZone {
        pub const UTC: TimeZone = TimeZone(jiff::tz::TimeZone::UTC);
        pub fn unknown() -> TimeZone {
            TimeZone(jiff::tz::TimeZone::unknown())
        }
        pub fn tzif(name: &str, data: &[u8]) -> Result<TimeZone, crate::error::Error> {
            jiff::tz::TimeZone::tzif(name, data).map(TimeZone).map_err(crate::error::Error::real)
        }
        pub fn iana_name(&self) -> Option<&str> {
            self.0.iana_name()
        }
        pub(crate) fn diagnostic_name(&self) -> &str {
            self.0.iana_name().unwrap_or("?")
        }
    }

    /// Stand-in for the name iterator (only built, never inspected by the db code).
    pub struct TimeZoneNameIter<'d> {
        pub names: Vec<String>,
        _p: core::marker::PhantomData<&'d ()>,
    }
    impl<'d> TimeZoneNameIter<'d> {
        pub(crate) fn empty() -> TimeZoneNameIter<'d> {
            TimeZoneNameIter { names: Vec::new(), _p: core::marker::PhantomData }
        }
        pub(crate) fn from_iter(it: impl Iterator<Item = impl Into<String>>) -> TimeZoneNameIter<'d> {
            TimeZoneNameIter { names: it.map(|s| s.into()).collect(), _p: core::marker::PhantomData }
        }
    }

    pub(crate) mod tzif {
        /// Same quick check as the real crate's.
        pub(crate) fn is_possibly_tzif(data: &[u8]) -> bool {
            data.starts_with(b"TZif")
        }
    }

    #[path = "/repo/src/tz/concatenated.rs"]
    pub(crate) mod concatenated;

    pub(crate) mod db {
        pub(crate) mod zoneinfo {
            #[path = "/repo/src/tz/db/zoneinfo/enabled.rs"]
            pub(crate) mod enabled;
        }
        pub(crate) mod concatenated {
            #[path = "/repo/src/tz/db/concatenated/enabled.rs"]
            pub(crate) mod enabled;
        }
    }
}

pub mod bodies;
