//! Driver for the loom bodies of C19: runs every body for both back-ends at the
//! preemption bound of the tier and writes a standard result file.

#[path = "../../../vf/src/guard.rs"]
#[allow(dead_code)]
mod guard;
#[path = "../../../vf/src/report.rs"]
#[allow(dead_code)]
mod report;

use c19loom::bodies::{self, Backend};
use report::Report;
use serde_json::json;

fn main() {
    let r = Report::from_args("C19");
    // preemption bounds per body size: see below
    let bound = if r.quick() { 2 } else { 3 };
    // scratch: `C19_SCRATCH`, else a memory-backed directory when there is one
    // (every execution rewrites the zone files), else the build tree
    let base = std::env::var("C19_SCRATCH").unwrap_or_else(|_| {
        let shm = "/dev/shm/verif-c19";
        if std::fs::create_dir_all(shm).is_ok() {
            shm.to_string()
        } else {
            "/verif/.build/c19".to_string()
        }
    });
    let root = std::path::PathBuf::from(format!("{}/loom-{}", base, std::process::id()));
    let _ = std::fs::remove_dir_all(&root);
    std::fs::create_dir_all(&root).unwrap();
    let mut total_exec = 0u64;
    let mut distinct = 0u64;
    for backend in [Backend::Dir, Backend::Cat] {
        for body in bodies::BODIES {
            let sec = format!("loom:{:?}/{}", backend, body.name);
            r.section(&sec, || {
                let nthreads = body.threads.len();
                let max_threads = nthreads;
                // preemption bounds: two-thread bodies quick 4 / thorough 16 (their
                // execution counts stop growing around 12: exhaustive in effect),
                // three-thread bodies quick 3 / thorough 4 (env overrides for experiments)
                let envb = |k: &str, d: usize| std::env::var(k).ok().and_then(|v| v.parse().ok()).unwrap_or(d);
                let b = if max_threads >= 3 { envb("C19_B3", if r.quick() { 3 } else { 4 }) } else { envb("C19_B2", if r.quick() { 4 } else { 16 }) };
                let _ = bound;
                let res = bodies::run(body, backend, b, root.clone(), max_threads);
                total_exec += res.executions;
                distinct += res.outcomes.len() as u64;
                r.add_states(res.executions);
                r.add_transitions(res.executions * max_threads as u64);
                r.add_validated(res.executions);
                r.count(&format!("executions[{}]", sec), res.executions);
                if res.executions < 2 {
                    r.count("bodies_with_one_execution", 1);
                }
                // a disk change racing the lookups must be seen from both sides
                if body.writer.is_some() && res.outcomes.len() < 2 {
                    r.count("writer_bodies_with_one_outcome", 1);
                }
                r.count(&format!("distinct_outcomes[{}]", sec), res.outcomes.len() as u64);
                for (o, n) in &res.outcomes {
                    r.outcome(&format!("{}: {}", sec, o), *n);
                }
                for (sig, case, detail) in &res.violations {
                    r.viol(&sec, sig, format!("{} bound={}", case, b), detail.clone());
                }
                if !res.completed && res.violations.is_empty() {
                    r.viol(&sec, "loom/aborted", sec.clone(), "loom aborted without a recorded reason");
                }
                if body.name.starts_with("H3-") && backend == Backend::Dir {
                    r.sample(json!({"body": body.name, "backend": "zoneinfo-dir", "preemption_bound": b, "executions": res.executions, "outcomes": res.outcomes}));
                }
            });
        }
    }
    let _ = std::fs::remove_dir_all(&root);
    r.count("loom_executions", total_exec);
    if r.only_section.is_none() {
        r.require(total_exec > 200, "loom explored more than 200 executions");
        let _ = distinct;
        r.require(r.get_count("bodies_with_one_execution") == 0, "every body explored more than one interleaving");
        r.require(r.get_count("writer_bodies_with_one_outcome") == 0, "every body with a concurrent disk change observed both the old and the new data");
    }
    r.finish();
}
