//! A stand-in for `std` in which `sync::{Arc, RwLock, Mutex, ...}` are loom's.
//!
//! The C19 harness crate is `#![no_std]` and declares `extern crate shimstd as
//! std;`, so that the *unmodified* jiff sources it includes with `#[path]`
//! resolve `std::sync::RwLock` to `loom::sync::RwLock` while everything else
//! (`std::fs`, `std::path`, `std::time`, ...) is the real thing.
pub use ::std::{
    alloc, any, array, borrow, boxed, cell, char, clone, cmp, collections, convert, default, env, error, ffi, fmt, fs,
    future, hash, hint, io, iter, marker, mem, net, num, ops, option, os, panic, path, pin, primitive, process, ptr, rc,
    result, slice, str, string, task, thread, time, vec,
};
pub use ::std::{eprintln, format, println, write, writeln};

pub mod sync {
    pub use ::loom::sync::{atomic, mpsc, Condvar, Mutex, MutexGuard, RwLock, RwLockReadGuard, RwLockWriteGuard};
    pub use ::std::sync::{LockResult, PoisonError, TryLockError, TryLockResult};

    /// `Arc` backed by loom's (every clone and drop is a scheduling point and
    /// leaks are detected), extended to the unsized `Arc<str>` that the
    /// concatenated back-end builds with `Arc::from(String)`: loom's own `Arc`
    /// only supports sized payloads, so the payload lives in a `Box`.
    pub struct Arc<T: ?Sized>(::loom::sync::Arc<::std::boxed::Box<T>>);

    impl<T> Arc<T> {
        pub fn new(v: T) -> Arc<T> {
            Arc(::loom::sync::Arc::new(::std::boxed::Box::new(v)))
        }
    }
    impl<T: ?Sized> Arc<T> {
        pub fn strong_count(this: &Arc<T>) -> usize {
            ::loom::sync::Arc::strong_count(&this.0)
        }
        pub fn ptr_eq(a: &Arc<T>, b: &Arc<T>) -> bool {
            ::loom::sync::Arc::ptr_eq(&a.0, &b.0)
        }
    }
    impl<T: ?Sized> Clone for Arc<T> {
        fn clone(&self) -> Arc<T> {
            Arc(self.0.clone())
        }
    }
    impl<T: ?Sized> ::core::ops::Deref for Arc<T> {
        type Target = T;
        fn deref(&self) -> &T {
            &**self.0
        }
    }
    impl<T: ?Sized> AsRef<T> for Arc<T> {
        fn as_ref(&self) -> &T {
            &**self.0
        }
    }
    impl<T: ?Sized> ::core::borrow::Borrow<T> for Arc<T> {
        fn borrow(&self) -> &T {
            &**self.0
        }
    }
    impl<T: ?Sized + ::core::fmt::Debug> ::core::fmt::Debug for Arc<T> {
        fn fmt(&self, f: &mut ::core::fmt::Formatter) -> ::core::fmt::Result {
            ::core::fmt::Debug::fmt(&**self.0, f)
        }
    }
    impl<T: ?Sized + ::core::fmt::Display> ::core::fmt::Display for Arc<T> {
        fn fmt(&self, f: &mut ::core::fmt::Formatter) -> ::core::fmt::Result {
            ::core::fmt::Display::fmt(&**self.0, f)
        }
    }
    impl<T: ?Sized + PartialEq> PartialEq for Arc<T> {
        fn eq(&self, o: &Arc<T>) -> bool {
            **self.0 == **o.0
        }
    }
    impl<T: ?Sized + Eq> Eq for Arc<T> {}
    impl<T: ?Sized + PartialOrd> PartialOrd for Arc<T> {
        fn partial_cmp(&self, o: &Arc<T>) -> Option<::core::cmp::Ordering> {
            (**self.0).partial_cmp(&**o.0)
        }
    }
    impl<T: ?Sized + Ord> Ord for Arc<T> {
        fn cmp(&self, o: &Arc<T>) -> ::core::cmp::Ordering {
            (**self.0).cmp(&**o.0)
        }
    }
    impl From<::std::string::String> for Arc<str> {
        fn from(s: ::std::string::String) -> Arc<str> {
            Arc(::loom::sync::Arc::new(s.into_boxed_str()))
        }
    }
    impl From<&str> for Arc<str> {
        fn from(s: &str) -> Arc<str> {
            Arc(::loom::sync::Arc::new(::std::string::String::from(s).into_boxed_str()))
        }
    }
    impl<T> From<T> for Arc<T> {
        fn from(v: T) -> Arc<T> {
            Arc::new(v)
        }
    }
}

/// The real `std::sync`, for harness state that must stay invisible to loom.
pub mod realsync {
    pub use ::std::sync::*;
}
