#!/bin/bash
cd /verif
: > /tmp/reseed.log
for d in seeded/*/; do
  n=$(basename $d)
  chk=$(python3 -c "
import json
m=json.load(open('$d/meta.json'))
k=list(m['caught_by'].keys())
print(m['property'] if m['property'] in k or not k else k[0])")
  tools/run_seeded.sh $n $chk >> /tmp/reseed.log 2>&1
done
echo DONE >> /tmp/reseed.log
