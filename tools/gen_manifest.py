#!/usr/bin/env python3
"""Regenerates /verif/MANIFEST.json from the table below (keeps it schema-valid)."""
import json, os
V = os.path.dirname(os.path.dirname(os.path.abspath(__file__)))
props = [json.loads(l) for l in open(os.path.join(V, "properties.jsonl"))]

E1 = "exhaustive lockstep enumeration of a declared finite input space against an independent reference model (bounded-exhaustive model checking, no sampling)"
# id -> (engine, technique, level text, level note)
TRUST = "Trusted: the reference models in harness/refmodel (R-cal successor machine and closed forms cross-checked exhaustively in C01; R-tz TZif reader/POSIX evaluator bound to glibc by `zdump` in C03 thorough; R-num exact i128/rational arithmetic), rustc/x86-64 Linux. Values outside the declared alphabets are not covered (small-scope argument, DESIGN.md section 1)."
def E(engine, tech, text, note=TRUST):
    return (engine, tech, text, note)
CHECKS = {
 "C01": E("E1", "explicit-state enumeration of the complete calendar state space (7,304,484 states of a successor machine) in lockstep with jiff; complete products for constructors / nth-weekday / ISO triples",
         "All 7.3M dates are visited by the reference successor machine anchored at 1970-01-01 = day 0 = Thursday and every calendar fact jiff reports is compared on every state (also for jiff-static's generated copy of itime.rs); all (y,m,d) and ISO (y,w,wd) triples incl. invalid ones and every month x nth x weekday are enumerated. Complete for the property's whole quantifier.",
         "Trusted: the textbook leap rule, a literal month-length table and the ISO-week definition in refmodel/cal.rs (closed forms are cross-checked against the successor machine on every state in the same run)."),
 "C02": E("E1", "bounded-exhaustive lockstep enumeration: every epoch day x boundary seconds x nanosecond pool x offsets, every second of selected days, all 187,199 offsets, full constructor product; exact i128 oracle",
         "Every day boundary of the whole supported range is crossed in both directions (instant->civil->instant) at +-1 ns for a set of offsets, all offsets are enumerated on a timestamp pool, and every (second, nanosecond) constructor pair of a mixed-sign boundary product is compared with an exact i128 count, including ==/cmp/Hash/sign-normalisation of every produced Timestamp."),
 "C03": E("E1", "exhaustive enumeration of every transition (recorded and rule-generated for every year to 9999) of every zone of the corpus at T-1s,T-0.5s,T-1ns,T,T+1ns,T+0.5s,T+1s plus interior points, in lockstep with an independent TZif/POSIX reference model (itself bound to glibc via zdump in the thorough tier)",
         "The offset function of a zone is piecewise constant with exactly these breakpoints, so the probe set holds a representative of every piece and both sides of every breakpoint at nanosecond granularity, for all installed zones (894 distinct files incl. posix/ and right/), synthetic zic-compiled zones (slim and fat), bundled zones, and a product alphabet of POSIX TZ strings."),
 "C04": E("E1", "exhaustive enumeration of every gap/fold window boundary (to the second and nanosecond) of every transition of every zone; classification defined from the reference model by counting pre-images; all four disambiguation strategies and five entry points compared",
         "Every civil-time window created by every transition (recorded and rule-generated) of every zone is probed at start-1s,start-1ns,start,start+1ns,middle,end-1ns,end,end+1ns,end+1s and at the DateTime limits; the expected class is the number of instants whose local reading is that civil time according to R-tz."),
 "C05": E("E1", "complete Cartesian enumeration of typed boundary pools over a catalogue of 405 public operations (fallible, saturating, wrapping, operators, conversions; completeness against a mechanical scan of the sources is reported), every bundled zone at the limits, run in two build modes (release; release+debug-assertions+overflow-checks) with per-entry outcome digests compared",
         "Every catalogued Result-returning operation is called with every tuple of its boundary pools; no panic in either build, every Ok value inside its documented range, and identical outcome streams in both builds.",
         "The catalogue is written against the pinned API; a source scan lists every Result/Option/saturating/wrapping/operator/From item as catalogued, covered by another entry or excluded by name (documented panics). " + TRUST),
 "C06": E("E1", "bounded-exhaustive lockstep enumeration: zones x start instants around every transition x span/duration pools x operations, against R-cal civil addition + R-tz compatible resolution + exact i128 instant arithmetic",
         "Zoned arithmetic is compared with the documented algorithm computed independently (civil add with clamping, compatible resolution by pre-image counting, exact elapsed-time add); start_of_day is compared with the first instant of the civil day found by scanning the model's pieces."),
 "C07": E("E1", "bounded-exhaustive enumeration of ordered pairs (boundary pools, all month ends of two leap cycles, 21x21 neighbourhoods of every transition) x every permitted largest unit; metamorphic + exact oracles (a+s==b, sign, no unit above largest, overshoot-balance, since=-until, exact ns distance)",
         "For every pair and largest unit the returned span is checked for reversibility through jiff's own addition AND through the reference model's addition (R-cal / R-tz), against an independently computed expected span for largest year/month, for sign consistency, balance by the overshoot test, exact nanosecond distance with the absolute duration in canonical representation (quotient/remainder, one sign, == a freshly built value), all argument forms, documented refusals, cross-zone differences and 28 hand-built extreme zones; both build modes."),
 "C08": E("E1", "bounded-exhaustive lockstep enumeration: (date pool + all month ends of leap cycles) x ~2,500-10,000 spans (every unit at every boundary value, all 2-unit mixes, 64-bit thresholds) and signed/unsigned durations x checked/saturating/wrapping/operators/series; R-cal + i128 oracle",
         "The documented calendar rules are transcribed independently (months first with clamping, then days on the epoch-day count, time units carried in 24-hour days) and compared on the complete product, including exactly when an addition is an error and exact modulo-24h wrapping."),
 "C09": E("E1", "exhaustive / bounded-exhaustive print->parse enumeration: all 7.3M dates, every second x all sub-second precisions, timestamps and zoned values around every transition of every named zone (both sides of folds, sub-minute LMT periods), all 187,199 display offsets, all whole-minute fixed zones, printer option product; independent RFC 3339/9557 reader",
         "parse(print(v)) == v is checked on the complete declared spaces (same instant, civil fields, offset, zone) and an independent reader decodes the printed text to the same instant whenever the printed offset is exact."),
 "C10": E("E1", "bounded-exhaustive enumeration: per (unit, every legal increment) the values k*inc, k*inc+-1ns, (k+1/2)*inc(+-1ns) for k in -3..=2 plus type limits x all 9 modes for Timestamp/Time/DateTime/SignedDuration/Offset; Zoned at day fractions of the real day length and around every transition; illegal increments; exact i128 mode table",
         "The rounding-mode table is transcribed independently on i128 and compared for every mode x increment x tie/near-tie/limit value, including year 0 and negative years, range errors, and Zoned rounding against R-tz day bounds and offset-preserving re-resolution."),
 "C11": E("E1", "bounded-exhaustive enumeration of spans x references (none, 24h marker, civil dates/datetimes at month ends and limits, zoned around gaps/folds) x all smallest<=largest unit pairs x increments x 9 modes; metamorphic exact-rational oracle through r+span",
         "Rounded/balanced spans are judged by where r+rounded lies relative to r+span and its two reachable neighbours using exact rationals and the transcribed mode table; totals against exact rationals within 2 ulp; compare against ordering of r+a, r+b.",
         "Every `r + span` is computed by jiff and by the reference model and reconciled (a disagreement is reported under its own signature); neighbours are anchored at jiff's result plus a balance bound. " + TRUST),
 "C12": E("E1", "complete Cartesian enumeration of boundary pools: all ordered pairs of (secs,nanos) values incl. i64::MIN/MAX for add/sub/cmp, x factor pool for mul/div, unit constructors/views, float boundary values; Span unit limits +-1, all sign patterns and setter orders; exact i128 / 256-bit oracle; two build modes",
         "SignedDuration arithmetic is compared with exact arithmetic on a signed 128-bit nanosecond count (floats with exact dyadic expansions), overflow verdicts must be exact, panicking functions must panic exactly when the exact result is unrepresentable in both builds; Span limits, sign invariant and fieldwise semantics are enumerated over all orders."),
 "C13": E("E2", "explicit-state breadth-first search (stateright) over operation histories: states (instant, zone, depth), 78 expanding actions and 592 probe actions (every public producer of a Zoned: constructors, arithmetic with all operand types, navigation, rounding, the with() option product, zone changes, Temporal/strptime/RFC 2822 parsing with all conflict options) each executing the real jiff operation; invariant (offset, model-recomputed civil datetime and 29 accessors, zone, Eq/Ord/Hash against neighbours, clone) evaluated on every produced Zoned before canonicalisation; depth 3 (quick), wide/deep4/deep7-core runs (thorough), run to exhaustion",
         "All Zoned values reachable by any sequence of the action alphabet up to the depth bound from transition-biased initial states are generated by the real operations; offset/civil consistency with the zone, instant-only equality/ordering/hash and instant preservation on zone change are checked on every one."),
 "C14": E("E1", "exhaustive enumeration: following()/preceding() from every probe instant (first items) and to exhaustion from the range limits, for every zone, against the reference breakpoint list with omission/spurious/order/info/direct-lookup checks; thorough walks every zone over every rule year to 9999, quick the representative zones plus rule-year windows and every 97th year for the others; static (get!/include!) zones and 18 hand-built TZif files; iterator contract (fused, clone, size_hint); following(MIN) compared with reversed preceding(MAX)",
         "Every yielded transition is matched against the model's list of info-changing breakpoints (recorded no-ops allowed), omissions are detected by walking both lists, and direct lookups just before/at each item are compared, across the recorded/rule-generated boundary."),
 "C15": E("E1", "complete product of friendly printer options (82,944 quick / 411,264 thorough configurations + 184,320 zero-unit configurations + ISO variants) x span and duration boundary pools (889 / 238 values); an independent reader of both grammars (never calls jiff) gives the exact i128 value of every printed text; lossless/lossy oracles; documented text shape of every option",
         "Every printed text must parse, and both the parser's value and the original are compared with the independent reading of the text; lossless configurations must round-trip unit for unit (or total for sub-second folding), lossy ones within one unit of the last printed digit, computed exactly."),
 "C16": E("E1", "exhaustive enumeration of every date of years 0..=9999 (and negative-year pools), every second of a day, transitions of representative zones, all fixed offsets x all specifiers / flags / widths; independent strftime interpreter validated against glibc strftime in the same run within the documented common domain; round trips and contradiction rejection",
         "Each specifier is compared with an independent definition on R-cal facts (bound to glibc where conventions coincide); determinate formats round-trip on all dates; wrong weekdays/contradicting fields must be rejected; RFC 2822 print/parse on every day x offsets."),
 "C17": E("E1", "exhaustive short-string enumeration (all strings up to length 4-6 over per-grammar alphabets for 26 parser entry points incl. FromStr impls, option products and relaxed modes) + all tails behind 111 valid prefixes + all 1- and 2-edit mutations of seed corpora + every digit field at 84 boundary values + exact repeat/nesting counts (1..=40, around 2^6..2^16) + digit-run / 1 MB blow-ups with time and allocation bounds + strptime/strftime with formats drawn from directives x flags x widths and all raw strings of <=3 bytes + byte/field/structured mutations of TZif and concatenated data, in isolated worker processes, in both build modes in both tiers",
         "Every input terminates with Ok or Err without panic within linear time/allocation bounds; every Ok value is range-checked and re-printed/re-parsed; every accepted zone answers a lookup battery without panicking.",
         "`All byte strings` is covered as all short strings plus all <=2-edit neighbours of valid strings; proportional work is decided up to the stated watchdog/allocation bounds. " + TRUST),
 "C18": E("E1", "exhaustive configuration product: every zone through {raw bytes, zoneinfo dir, concatenated file in a plain and an adversarial layout, bundled db, global db, static include!/get! macros} x {tz-fat on, off} (two builds of the same dumper) x {slim, fat zic output}; canonical answer streams compared line by line and by digest across builds; all case variants of names; POSIX print->parse",
         "The same data must give identical answer streams (offset info, civil classification, transitions, printed forms) through every back-end and feature configuration; slim and fat compilations of the same rules must agree wherever zic's own outputs describe the same zone; name lookup is checked warm and cold for every name in 4-4096 case variants and for all 9,120 short queries against a 154-name neighbour database; TimeZone == between runtime routes; POSIX printed forms are re-read by an independent reader."),
 "C19": E("E2+E3", "sequential: every event history up to depth 4/5 over a 22-event alphabet (incl. replacement by a file with an OLDER modification time) executed from scratch on the real public API with a harness-owned clock (no state merging), property-level admissibility monitor; concurrent: loom exhaustive exploration (preemption-bounded DPOR) of the real, unmodified zoneinfo and concatenated database sources compiled against loom via a std shim",
         "All 22^4 = 234,256 (quick) / 22^5 = 5,153,632 (thorough) histories of get/reset/write/touch/remove/advance per back-end, plus deep / revalidated / single-zone / bundled sections with invalid, directory, truncated, same-mtime and older-mtime replacements (1.14 M quick / 24.4 M thorough histories in all), are executed; every answer must be a state the name's data had on disk within the last TTL or since the last reset, and an entry whose mtime is unchanged must be reused until reset; a replacement landing INSIDE a lookup is made deterministic with a named pipe, and the database root may be a symbolic link that is re-pointed; all interleavings of 2-3 threads up to the preemption bound over 19 bodies x 2 back-ends are explored by loom, which also detects deadlocks.",
         "The std shim replaces std::sync::{Arc,RwLock} by loom's in the unmodified sources; file-system and clock effects are driven deterministically by the harness; the global tz::db() singleton and TZDIR discovery are not explored. " + TRUST),
 "C20": E("E2+E3", "all programs over {new, clone, move, drop, eq, query, wrap} on a pool of 3 handle slots up to depth 6/8 executed from scratch on real handles with a counting allocator (no state merging); all 187,199 fixed offsets; baton-scheduled enumeration of all orders of handle operations of 2-3 threads (95,000 / 1.36 M schedules); database-cache handles, 43 constructor paths, equality matrix over 36 handles, unwinding with live handles; replay under ASan+LSan; Miri on free-running (unserialised) threads in both tiers and on depth-3 programs in thorough; ThreadSanitizer on the free-running section in thorough",
         "Every bounded program is run on real TimeZone values; after every step the set of live heap groups must equal the reference model's, queries must answer correctly, equality must be reflexive/symmetric/clone-stable; memory safety is decided by the counting allocator (consulted before every read) and by replaying the program set under AddressSanitizer/LeakSanitizer and Miri; data races in reference counts by Miri/TSan on free-running threads.",
         "Memory orderings inside std's Arc are trusted; 32-bit pointer layouts are not exercised. " + TRUST),
}
NOT_YET = "check not built yet (construction in progress; see DESIGN.md section 3)"

import re
DRIVER = open(os.path.join(V, "check")).read()
BUILT = set(re.findall(r'^    "(C\d+)":', DRIVER, re.M))
checks, na = [], []
for p in props:
    i = p["id"]
    if i in CHECKS and i in BUILT:
        eng, tech, text, note = CHECKS[i]
        checks.append({
            "property_id": i,
            "quick_cmd": "./check %s --tier quick" % i,
            "thorough_cmd": "./check %s --tier thorough" % i,
            "evidence_file": "/verif/evidence/%s.json" % i,
            "replay_cmd_template": "./check %s --replay {path}" % i,
            "engine": eng,
            "level_claimed": {"category": "model_checking", "text": text, "design_ref": "DESIGN.md section 3/" + i},
            "level_note": note,
            "technique": tech,
        })
    else:
        na.append({"property_id": i, "reason": NOT_YET})
m = {
 "version": 1,
 "setup_cmd": "./check --build-all",
 "hooks": {
  "guard": "jiff_verif",
  "enable": "RUSTFLAGS='--cfg jiff_verif' (set by /verif/check for every harness build; own target dir /verif/.build/target)",
  "baseline_off_cmd": "cd /repo && cargo test --workspace --no-fail-fast --offline",
  "source_commits": ["c004e1e"],
  "add_only": True,
 },
 "engines": [
  {"name": "E1", "path": "harness/vf", "serves_properties": [c["property_id"] for c in checks if c["engine"] == "E1"], "kind_free_text": E1},
  {"name": "E2", "path": "harness/c13sr, harness/vf/src/bin/c19.rs", "serves_properties": [c["property_id"] for c in checks if "E2" in c["engine"]], "kind_free_text": "explicit-state search over operation histories / programs executing the real operations (stateright BFS where merging states is sound; replay-from-scratch with no merging otherwise)"},
  {"name": "E3", "path": "harness/c19loom", "serves_properties": [c["property_id"] for c in checks if "E3" in c["engine"]], "kind_free_text": "controlled-scheduler exploration of the real source under loom (preemption-bounded, exhaustive within the bound)"},
 ],
 "checks": checks,
 "notes": "See DESIGN.md. Exit 2 from ./check is an engine failure (build error, crash, failed non-vacuity requirement), never a verdict.",
 "not_applicable": na,
}
json.dump(m, open(os.path.join(V, "MANIFEST.json"), "w"), indent=1)
print("checks:", len(checks), "not_applicable:", len(na))
