#!/usr/bin/env python3
"""Regenerates /verif/MANIFEST.json from the table below (keeps it schema-valid)."""
import json, os
V = os.path.dirname(os.path.dirname(os.path.abspath(__file__)))
props = [json.loads(l) for l in open(os.path.join(V, "properties.jsonl"))]

E1 = "exhaustive lockstep enumeration of a declared finite input space against an independent reference model (bounded-exhaustive model checking, no sampling)"
# id -> (engine, technique, level text, level note)
CHECKS = {
 "C01": ("E1", "explicit-state enumeration of the complete calendar state space (7,304,484 states of a successor machine) in lockstep with jiff; complete products for constructors/nth-weekday/ISO triples",
         "All 7.3M dates are visited by the reference successor machine anchored at 1970-01-01=day 0=Thursday and every calendar fact jiff reports is compared on every state; all (y,m,d), (y,w,wd) triples and every month x nth x weekday are enumerated. Complete for the property's whole quantifier, so this is the strongest level the technique offers.",
         "Trusted: the textbook leap rule, a literal month-length table and the ISO-week definition in refmodel/cal.rs (the closed forms are cross-checked against the successor machine on every state in the same run)."),
}
NOT_YET = "check not built yet (construction in progress; see DESIGN.md section 3)"

checks, na = [], []
for p in props:
    i = p["id"]
    if i in CHECKS:
        eng, tech, text, note = CHECKS[i]
        checks.append({
            "property_id": i,
            "quick_cmd": "./check %s --tier quick" % i,
            "thorough_cmd": "./check %s --tier thorough" % i,
            "evidence_file": "/verif/evidence/%s.json" % i,
            "replay_cmd_template": "./check %s --replay {path}" % i,
            "engine": eng,
            "level_claimed": {"category": "model_checking", "text": text, "design_ref": "DESIGN.md section 3/" + i},
            "level_note": note,
            "technique": tech,
        })
    else:
        na.append({"property_id": i, "reason": NOT_YET})
m = {
 "version": 1,
 "setup_cmd": "./check --build-all",
 "hooks": {
  "guard": "jiff_verif",
  "enable": "RUSTFLAGS='--cfg jiff_verif' (set by /verif/check for every harness build; own target dir /verif/.build/target)",
  "baseline_off_cmd": "cd /repo && cargo test --workspace --no-fail-fast --offline",
  "source_commits": ["c004e1e"],
  "add_only": True,
 },
 "engines": [
  {"name": "E1", "path": "harness/vf", "serves_properties": [c["property_id"] for c in checks if c["engine"] == "E1"], "kind_free_text": E1},
 ],
 "checks": checks,
 "notes": "See DESIGN.md. Exit 2 from ./check is an engine failure (build error, crash, failed non-vacuity requirement), never a verdict.",
 "not_applicable": na,
}
json.dump(m, open(os.path.join(V, "MANIFEST.json"), "w"), indent=1)
print("checks:", len(checks), "not_applicable:", len(na))
