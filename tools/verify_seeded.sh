#!/bin/bash
# Independently confirm a seeded change: on a fresh worktree of /repo's HEAD the
# patch applies, the repository's whole test suite passes WITH it, the
# demonstration fails WITH it and passes WITHOUT it. Everything is removed afterwards.
# DEMO_FEATURES='"tzdb-bundle-always"' adds jiff features to the demonstration crate.
# usage: verify_seeded.sh <dir containing patch.diff and demo.rs> <name>
set -u
SRC=$1; NAME=$2
W=/tmp/mutv/$NAME
rm -rf $W; mkdir -p /tmp/mutv
git -C /repo worktree add -q --detach $W HEAD || exit 2
export CARGO_TARGET_DIR=$W/target CARGO_NET_OFFLINE=true
OUT=$SRC/verify.log; : > $OUT
git -C $W apply $SRC/patch.diff || { echo "PATCH-DOES-NOT-APPLY" | tee -a $OUT; git -C /repo worktree remove --force $W; exit 1; }
mkdir -p $W/demo-crate/src
cat > $W/demo-crate/Cargo.toml <<EOT
[package]
name = "demo"
version = "0.0.0"
edition = "2021"
[dependencies]
jiff = { path = ".."${DEMO_FEATURES:+, features = [$DEMO_FEATURES]} }
[workspace]
EOT
cp $SRC/demo.rs $W/demo-crate/src/main.rs
( cd $W && cargo test --workspace --no-fail-fast --offline > $W/suite.log 2>&1; echo "suite-with-change exit=$? $(grep 'test result' $W/suite.log | awk '{p+=$4; f+=$6} END {print "passed="p" failed="f}')" ) | tee -a $OUT
( cd $W/demo-crate && cargo run --offline -q > $W/demo1.log 2>&1; echo "demo-with-change exit=$?" ) | tee -a $OUT
git -C $W apply -R $SRC/patch.diff
( cd $W/demo-crate && cargo run --offline -q > $W/demo2.log 2>&1; echo "demo-without-change exit=$?" ) | tee -a $OUT
tail -3 $W/demo1.log | cut -c1-300 >> $OUT
git -C /repo worktree remove --force $W
