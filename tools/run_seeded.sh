#!/bin/bash
# Apply a seeded change to /repo, run the named checks (quick tier), undo it.
# usage: run_seeded.sh <seeded dir name> <check id> [<check id> ...]   (TIER=thorough for the thorough tier)
set -u
NAME=$1; shift
P=/verif/seeded/$NAME/patch.diff
cd /verif
if ! git -C /repo diff --quiet; then echo "/repo has uncommitted changes"; exit 2; fi
git -C /repo apply $P || { echo "patch does not apply"; exit 2; }
for c in "$@"; do
  ./check $c --tier ${TIER:-quick} > /tmp/seeded_${NAME}_${c}.out 2> /tmp/seeded_${NAME}_${c}.err
  rc=$?
  echo "seeded=$NAME check=$c exit=$rc violations=$(grep -c '^VIOLATION' /tmp/seeded_${NAME}_${c}.out)"
  grep "sig=" /tmp/seeded_${NAME}_${c}.err | head -6 | cut -c1-220
done
git -C /repo checkout -- .
git -C /repo status --short | head -3
